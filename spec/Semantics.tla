------------------------------ MODULE Semantics ------------------------------
(***************************************************************************)
(* Property-level meaning of the joins and filters, independent of any      *)
(* algorithm (no index, no prefix, no token order).  Everything the trace   *)
(* specifications call an `envelope' is defined here.                       *)
(*                                                                         *)
(* A threshold is a rational <<p, q>>; the harness creates the float p/q.   *)
(* x, y are finite sets of tokens.                                          *)
(***************************************************************************)
EXTENDS SSJBase

SetMeasures     == {"JACCARD", "COSINE", "DICE", "OVERLAP_COEFFICIENT", "OVERLAP"}
RoundedMeasures == {"JACCARD", "COSINE", "DICE"}
EmptyMeasures   == {"JACCARD", "COSINE", "DICE", "OVERLAP_COEFFICIENT"}

Ov(x, y) == Cardinality(x \cap y)

(* similarity as an exact rational <<num, den>>; not for COSINE *)
SimND(meas, x, y) ==
  LET o == Ov(x, y)  n == Cardinality(x)  m == Cardinality(y)
  IN  CASE meas = "JACCARD"             -> <<o, n + m - o>>
        [] meas = "DICE"                -> <<2 * o, n + m>>
        [] meas = "OVERLAP_COEFFICIENT" -> <<o, Min2(n, m)>>
        [] meas = "OVERLAP"             -> <<o, 1>>

(* cosine o / sqrt(n m) compared with p/q: (o q)^2 vs p^2 n m *)
CosLhs(o, t)    == BigProd(<<o, o, t[2], t[2]>>)
CosRhs(n, m, t) == BigProd(<<t[1], t[1], n, m>>)

(* the similarity computed exactly satisfies `op' against the threshold *)
RawSat(meas, op, t, x, y) ==
  IF meas = "COSINE"
  THEN BigCmpOp(op, CosLhs(Ov(x, y), t), CosRhs(Cardinality(x), Cardinality(y), t))
  ELSE LET s == SimND(meas, x, y) IN CmpInt(op, s[1] * t[2], t[1] * s[2])

(* exact tie of the cosine with the threshold: sqrt(n m) is rational and the *)
(* double-precision value may fall on either side; a don't-care.            *)
CosTie(t, x, y) == BigCmp(CosLhs(Ov(x, y), t), CosRhs(Cardinality(x), Cardinality(y), t)) = 0

(* --- scores rounded to 4 decimals, as integers 0..10000 ---------------- *)
(* cosine: s is admissible iff |s - 10^4 o/sqrt(nm)| <= 1/2, i.e.          *)
(*   (2s-1)^2 nm <= 4*10^8 o^2 <= (2s+1)^2 nm                              *)
CosScoreOK(o, n, m, s) ==
  LET mid == BigProd(<<4, 10000, 10000, o, o>>)
      lo  == IF s = 0 THEN <<>> ELSE BigProd(<<2 * s - 1, 2 * s - 1, n, m>>)
      hi  == BigProd(<<2 * s + 1, 2 * s + 1, n, m>>)
  IN  BigCmp(lo, mid) <= 0 /\ BigCmp(mid, hi) <= 0

(* largest s in lo..hi with s^2 n m <= 10^8 o^2 (binary search) *)
RECURSIVE CosFloor(_, _, _, _, _)
CosFloor(o, n, m, lo, hi) ==
  IF lo = hi THEN lo
  ELSE LET mid == (lo + hi + 1) \div 2
       IN  IF BigCmp(BigProd(<<mid, mid, n, m>>), BigProd(<<10000, 10000, o, o>>)) <= 0
           THEN CosFloor(o, n, m, mid, hi) ELSE CosFloor(o, n, m, lo, mid - 1)
CosR4SetBig(o, n, m) ==
  LET f == CosFloor(o, n, m, 0, 10000)
  IN  {s \in {f, f + 1} : s <= 10000 /\ CosScoreOK(o, n, m, s)}

(* the same set with 32-bit integer arithmetic, valid when o <= 4 and n m <= 16 (all products     *)
(* stay below 2^31): s is admissible iff (s - 1/2)^2 nm <= 10^8 o^2 <= (s + 1/2)^2 nm, i.e.        *)
(* (s^2 - s) nm + nm/4 <= 10^8 o^2 <= (s^2 + s) nm + nm/4                                         *)
RECURSIVE CosFloorSmall(_, _, _, _, _)
CosFloorSmall(o, n, m, lo, hi) ==
  IF lo = hi THEN lo
  ELSE LET mid == (lo + hi + 1) \div 2
       IN  IF mid * mid * n * m <= 100000000 * o * o
           THEN CosFloorSmall(o, n, m, mid, hi) ELSE CosFloorSmall(o, n, m, lo, mid - 1)
CosScoreOKSmall(o, n, m, s) ==
  LET nm == n * m   t == 100000000 * o * o IN
  /\ (s = 0 \/ 4 * (t - (s * s - s) * nm) >= nm)  \* (2s-1)^2 nm <= 4 t  (the difference is small near the root)
  /\ 4 * (t - (s * s + s) * nm) <= nm            \* 4 t <= (2s+1)^2 nm
CosR4SetSmall(o, n, m) ==
  LET f == CosFloorSmall(o, n, m, 0, 10000)
  IN  {s \in {f, f + 1} : s <= 10000 /\ CosScoreOKSmall(o, n, m, s)}

CosR4Set(o, n, m) == IF o <= 4 /\ n * m <= 16 THEN CosR4SetSmall(o, n, m) ELSE CosR4SetBig(o, n, m)

Score4Set(meas, x, y) ==
  IF meas = "COSINE" THEN CosR4Set(Ov(x, y), Cardinality(x), Cardinality(y))
  ELSE LET s == SimND(meas, x, y) IN R4SetDiv(s[1], s[2])

(* every admissible rounded score satisfies the comparison *)
RoundedSatAll(meas, op, t, x, y) ==
  \A s \in Score4Set(meas, x, y) : CmpInt(op, s * t[2], t[1] * 10000)
RoundedSatSome(meas, op, t, x, y) ==
  \E s \in Score4Set(meas, x, y) : CmpInt(op, s * t[2], t[1] * 10000)

(* --- C01: the pair must be returned.  Both token sets non-empty.          *)
MustPair(meas, op, t, x, y) ==
  /\ x # {} /\ y # {}
  /\ RawSat(meas, op, t, x, y)
  /\ meas = "COSINE" => ~CosTie(t, x, y)
  /\ meas \in RoundedMeasures => RoundedSatAll(meas, op, t, x, y)

(* --- C02: the pair may be returned (never stricter than the statement)    *)
MayPair(meas, op, t, x, y) ==
  /\ x # {} /\ y # {}
  /\ \/ RawSat(meas, op, t, x, y)
     \/ meas = "COSINE" /\ CosTie(t, x, y)
     \/ meas \in RoundedMeasures /\ RoundedSatSome(meas, op, t, x, y)

(* --- C04: a filter must keep the pair: exact similarity >= threshold.     *)
(* Filters never compute a float similarity, so ties are included.          *)
KeepMust(meas, t, x, y) ==
  /\ x # {} /\ y # {}
  /\ RawSat(meas, ">=", t, x, y)

(* --- C09 *)
BothEmpty(x, y) == x = {} /\ y = {}
OneEmpty(x, y)  == (x = {}) # (y = {})
EmptyAdmitted(meas, allowEmpty) == allowEmpty /\ meas \in EmptyMeasures

(* --- edit distance (C03).  a, b strings; q, padding of the tokenizer.     *)
EDThreshold(t) == t[1] \div t[2]                        \* floor
ShareQgram(a, b, q, padding) ==
  SeqToSet(Qgrams(a, q, padding)) \cap SeqToSet(Qgrams(b, q, padding)) # {}
MayED(op, t, a, b)  == CmpInt(op, Lev(a, b), EDThreshold(t))
MustED(op, t, a, b, q, padding) == MayED(op, t, a, b) /\ ShareQgram(a, b, q, padding)

(* --- output header (C11): generic_helper.get_output_header_from_tables    *)
RECURSIVE Dedup(_, _, _)
(* remove_redundant_attrs: drop the key and repeats, keep order *)
Dedup(attrs, key, seen) ==
  IF Len(attrs) = 0 THEN <<>>
  ELSE IF Head(attrs) = key \/ Head(attrs) \in seen THEN Dedup(Tail(attrs), key, seen)
       ELSE <<Head(attrs)>> \o Dedup(Tail(attrs), key, seen \cup {Head(attrs)})

=============================================================================
