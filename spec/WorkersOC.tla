------------------------------ MODULE WorkersOC ------------------------------
(***************************************************************************)
(* The workers that count overlaps with an inverted index:                 *)
(*   Mode "oc"      overlap_coefficient_join (_overlap_coefficient_join_   *)
(*                  split): InvertedIndex with size cache and empty        *)
(*                  records, OverlapFilter.find_candidates, score =        *)
(*                  overlap / min(sizes), comparison, empty-row branch     *)
(*   Mode "overlap" OverlapFilter._filter_tables_split (and thereby        *)
(*                  overlap_join): keep iff op(overlap, size)              *)
(* Both are exact, not merely safe (C01, C02, C06, C09): at "done" the     *)
(* output is exactly the set of pairs that satisfy the predicate.          *)
(***************************************************************************)
EXTENDS SSJBase

CONSTANTS NTok, MaxL, MaxR, Mode, AllowEmpty,
          Sabotage      \* "none"; "skip-row-id": an empty left record does not advance the row id (non-vacuity)

Rows(n) == UNION {[1..k -> SUBSET (1..NTok)] : k \in 0..n}
Ths == IF Mode = "oc" THEN {<<1, 2>>, <<2, 3>>, <<1, 1>>} ELSE {<<1, 1>>, <<2, 1>>, <<3, 2>>}

VARIABLES lt, rt, thr, op, pc, li, rowid, ri, idx, sizes, empties, out
vars == <<lt, rt, thr, op, pc, li, rowid, ri, idx, sizes, empties, out>>

Init == /\ lt \in Rows(MaxL) /\ rt \in Rows(MaxR)
        /\ thr \in Ths /\ op \in {">=", ">", "="}
        /\ pc = "build" /\ li = 1 /\ rowid = 0 /\ ri = 1 /\ idx = <<>> /\ sizes = <<>> /\ empties = <<>> /\ out = {}

BuildRow ==
  /\ pc = "build" /\ li <= Len(lt)
  /\ LET toks == lt[li] IN
       /\ idx' = [t \in (DOMAIN idx) \cup toks |->
                    (IF t \in DOMAIN idx THEN idx[t] ELSE <<>>) \o (IF t \in toks THEN <<rowid>> ELSE <<>>)]
       /\ sizes' = Append(sizes, Cardinality(toks))
       /\ empties' = IF toks = {} /\ Mode = "oc" /\ AllowEmpty THEN Append(empties, rowid) ELSE empties
       /\ rowid' = IF Sabotage = "skip-row-id" /\ toks = {} THEN rowid ELSE rowid + 1
  /\ li' = li + 1
  /\ UNCHANGED <<lt, rt, thr, op, pc, ri, out>>
BuildDone == /\ pc = "build" /\ li > Len(lt) /\ pc' = "probe"
             /\ UNCHANGED <<lt, rt, thr, op, li, rowid, ri, idx, sizes, empties, out>>

(* OverlapFilter.find_candidates: candidate -> number of shared tokens *)
Overlaps(y) == [l \in 0..(Len(lt) - 1) |->
                  Cardinality({t \in y \cap DOMAIN idx : \E k \in DOMAIN idx[t] : idx[t][k] = l})]
ProbeRow ==
  /\ pc = "probe" /\ ri <= Len(rt)
  /\ LET y == rt[ri]  m == Cardinality(y)  ov == Overlaps(y)  r == ri - 1 IN
       IF Mode = "oc" /\ AllowEmpty /\ m = 0
       THEN out' = out \cup {<<empties[k], r>> : k \in DOMAIN empties}
       ELSE out' = out \cup
              {<<l, r>> : l \in {l \in 0..(Len(lt) - 1) :
                   ov[l] > 0 /\
                   IF Mode = "oc"
                   THEN CmpInt(op, ov[l] * thr[2], thr[1] * Min2(m, sizes[l + 1]))
                   ELSE CmpInt(op, ov[l] * thr[2], thr[1])}}
  /\ ri' = ri + 1
  /\ UNCHANGED <<lt, rt, thr, op, pc, li, rowid, idx, sizes, empties>>
Finish == /\ pc = "probe" /\ ri > Len(rt) /\ pc' = "done"
          /\ UNCHANGED <<lt, rt, thr, op, li, rowid, ri, idx, sizes, empties, out>>
Next == BuildRow \/ BuildDone \/ ProbeRow \/ Finish
Spec == Init /\ [][Next]_vars

Wanted ==
  {<<l, r>> \in (0..(Len(lt) - 1)) \X (0..(Len(rt) - 1)) :
     LET x == lt[l + 1]  y == rt[r + 1]  o == Cardinality(x \cap y) IN
     IF x = {} /\ y = {} THEN Mode = "oc" /\ AllowEmpty
     ELSE IF x = {} \/ y = {} THEN FALSE
     ELSE IF Mode = "oc" THEN CmpInt(op, o * thr[2], thr[1] * Min2(Cardinality(x), Cardinality(y)))
     ELSE o > 0 /\ CmpInt(op, o * thr[2], thr[1])}
Exact == pc = "done" => out = Wanted
=============================================================================
