---------------------------- MODULE TraceWorkersOC ----------------------------
(***************************************************************************)
(* Implementation-layer trace validation of the inverted-index workers     *)
(* (_overlap_coefficient_join_split, OverlapFilter._filter_tables_split):  *)
(* hook events replayed through the actions of WorkersOC.tla - inverted    *)
(* index (token -> row ids), size cache, empty records, per probe the      *)
(* candidate -> overlap counts, and the emitted pairs.  Findings are DRIFT.*)
(* A batch holds traces of one (Mode, AllowEmpty).                         *)
(***************************************************************************)
EXTENDS WorkersOC, Json, IOUtils

Traces == JsonDeserialize(IOEnv.TRACE_FILE)
VARIABLES tid, note
tvars == <<tid, note>>
Tr == Traces[tid]

TabOf(rows) == [k \in 1..Len(rows) |-> SeqToSet(rows[k])]
Load(k) == /\ lt' = TabOf(Traces[k].L) /\ rt' = TabOf(Traces[k].R)
           /\ thr' = <<Traces[k].t[1], Traces[k].t[2]>> /\ op' = Traces[k].op
           /\ pc' = "build" /\ li' = 1 /\ rowid' = 0 /\ ri' = 1 /\ idx' = <<>> /\ sizes' = <<>> /\ empties' = <<>> /\ out' = {}
TInit == /\ tid = 1 /\ note = {}
         /\ lt = TabOf(Traces[1].L) /\ rt = TabOf(Traces[1].R)
         /\ thr = <<Traces[1].t[1], Traces[1].t[2]>> /\ op = Traces[1].op
         /\ pc = "build" /\ li = 1 /\ rowid = 0 /\ ri = 1 /\ idx = <<>> /\ sizes = <<>> /\ empties = <<>> /\ out = {}

Add(ok, clause) == IF ok THEN note ELSE note \cup {clause}

TBuildRow == BuildRow /\ UNCHANGED <<tid, note>>
IdxMatches ==
  /\ Len(Tr.index) = Cardinality({k \in DOMAIN idx : Len(idx[k]) > 0})
  /\ \A e \in DOMAIN Tr.index : Tr.index[e][1] \in DOMAIN idx /\ Tr.index[e][2] = idx[Tr.index[e][1]]
TBuildDone == /\ BuildDone
              /\ note' = Add(IdxMatches, "postings")
                         \cup Add(Mode # "oc" \/ Tr.sizes = sizes, "size-cache")
                         \cup Add(Tr.empties = empties, "empty-records")
              /\ UNCHANGED tid

LoggedOv(p, l) == IF \E k \in DOMAIN p.cand : p.cand[k][1] = l
                  THEN p.cand[CHOOSE k \in DOMAIN p.cand : p.cand[k][1] = l][2] ELSE 0
TProbe == /\ pc = "probe" /\ ri <= Len(rt)
          /\ ProbeRow
          /\ LET p == Tr.probes[ri] IN
               note' = IF p.skipped = 1
                       THEN Add(Mode = "oc" /\ AllowEmpty /\ rt[ri] = {}, "empty-branch")
                       ELSE Add(SeqToSet(p.rtoks) = rt[ri], "probe-tokens")
                            \cup Add(\A l \in 0..(Len(lt) - 1) : Overlaps(rt[ri])[l] = LoggedOv(p, l), "overlap-counts")
          /\ UNCHANGED tid

LoggedOut == {<<Tr.rows[k][1], Tr.rows[k][2]>> : k \in DOMAIN Tr.rows}
TFinish == /\ Finish
           /\ note' = Add(Len(Tr.rows) = Cardinality(LoggedOut), "duplicate-rows") \cup Add(LoggedOut = out, "emitted-rows")
           /\ UNCHANGED tid
TNextTrace == /\ pc = "done" /\ tid < Len(Traces) /\ tid' = tid + 1 /\ note' = {} /\ Load(tid + 1)

TNext == TBuildRow \/ TBuildDone \/ TProbe \/ TFinish \/ TNextTrace
TSpec == TInit /\ [][TNext]_<<vars, tvars>>
Report == pc = "done" => PrintT(<<"VERDICT", ToJson([tid |-> Tr.tid, fails |-> note])>>)
=============================================================================
