SPECIFICATION Spec
CONSTANTS
  NTok = 3
  MaxL = 2
  MaxR = 2
  Mode = "oc"
  AllowEmpty = FALSE
  Sabotage = "none"
INVARIANT Exact
CHECK_DEADLOCK FALSE
