------------------------------- MODULE Workers -------------------------------
(***************************************************************************)
(* The per-chunk worker of the set-similarity joins (join/set_sim_join.py) *)
(* and of PositionFilter / PrefixFilter / SizeFilter.filter_tables, as a   *)
(* state machine with one action per step of the code:                     *)
(*                                                                         *)
(*   GenOrder   gen_token_ordering_for_tables over both tables             *)
(*   BuildRow   one iteration of PositionIndex.build (order the tokens of  *)
(*              left row li, prefix length, postings, size cache,          *)
(*              min/max length, cached tokens, empty records)              *)
(*   ProbeRow   one iteration of the loop over the right rows: order the   *)
(*              tokens, empty-row branch, PositionFilter.find_candidates   *)
(*              (size window, required overlaps, probe prefix, positional  *)
(*              bound, -1 = pruned for good), verification with the real   *)
(*              measure, output rows                                       *)
(*   Finish                                                                *)
(*                                                                         *)
(* The arithmetic values (prefix lengths, size window, required overlaps)  *)
(* are parameters of the actions.  In model checking they are chosen       *)
(* nondeterministically inside the admissibility envelope of Filters.tla   *)
(* (ideal, or relaxed by one), so the invariants hold for every arithmetic *)
(* that stays inside the envelope; in trace validation (TraceWorkers.tla)  *)
(* they are bound to the values the code logged.                           *)
(*                                                                         *)
(* Tables are sequences of token sets (rows with a missing value never     *)
(* reach a worker).  mode = "join" verifies candidates, "position",        *)
(* "prefix", "size" are the filter_tables workers.                         *)
(***************************************************************************)
EXTENDS Filters

CONSTANTS NTok, MaxL, MaxR,           \* table space for model checking
          Meas, AllowEmpty, Mode,
          Sabotage                    \* "none"; or a deliberately inadmissible arithmetic, used to show that
                                      \* the invariants are not vacuous: "short-prefix", "high-overlap", "narrow-size"

(* thresholds and operators explored by the model checker *)
Ths == IF Meas = "OVERLAP" THEN {<<1, 1>>, <<2, 1>>, <<3, 1>>}
       ELSE {<<1, 3>>, <<1, 2>>, <<2, 3>>, <<7, 10>>, <<1, 1>>}
Ops == IF Mode = "join" THEN {">=", ">", "="} ELSE {">="}
HandleEmpty == AllowEmpty /\ (Mode = "join" \/ Meas # "OVERLAP")

Rows(n) == UNION {[1..k -> SUBSET (1..NTok)] : k \in 0..n}

VARIABLES lt, rt,          \* the two tables (constant during a run)
          thr, op,         \* threshold <<p, q>> and comparison operator (constant during a run)
          pc,              \* "order" | "build" | "probe" | "done"
          ord,             \* token -> rank
          li, ri,          \* next left row to index / right row to probe
          idx,             \* rank -> sequence of <<row, pos>> (postings, 0-based pos)
          sizes,           \* size cache: row -> number of tokens
          ltoks,           \* cached ordered tokens per left row
          plens,           \* prefix length used for each left row
          empties,         \* left rows without tokens (in row order)
          minlen, maxlen,
          out              \* set of <<left row, right row, score4 or -1>>
vars == <<lt, rt, thr, op, pc, ord, li, ri, idx, sizes, ltoks, plens, empties, minlen, maxlen, out>>

Toks == UNION ({lt[k] : k \in DOMAIN lt} \cup {rt[k] : k \in DOMAIN rt})
Freq == [t \in Toks |-> Cardinality({k \in DOMAIN lt : t \in lt[k]})
                        + Cardinality({k \in DOMAIN rt : t \in rt[k]})]
Ordered(s, o) == SortAsc([j \in 1..Cardinality(s) |-> o[SortSet(s)[j]]])

Init == /\ lt \in Rows(MaxL) /\ rt \in Rows(MaxR)
        /\ thr \in Ths /\ op \in Ops
        /\ pc = "order" /\ ord = <<>> /\ li = 1 /\ ri = 1
        /\ idx = <<>> /\ sizes = <<>> /\ ltoks = <<>> /\ plens = <<>> /\ empties = <<>>
        /\ minlen = BigSize /\ maxlen = 0 /\ out = {}

GenOrder == /\ pc = "order"
            /\ ord' = [t \in Toks |-> RankIn(Freq, t)]
            /\ pc' = "build"
            /\ UNCHANGED <<lt, rt, thr, op, li, ri, idx, sizes, ltoks, plens, empties, minlen, maxlen, out>>

(* postings of one row added to the index *)
AddPostings(ix, row, toks, plen) ==
  LET pre == Slice0(toks, 0, plen)
      keys == (DOMAIN ix) \cup SeqToSet(pre)
      PosIn(k) == {p \in 1..Len(pre) : pre[p] = k}
  IN  [k \in keys |-> LET old == IF k \in DOMAIN ix THEN ix[k] ELSE <<>> IN
                       IF PosIn(k) = {} THEN old
                       ELSE Append(old, <<row, (CHOOSE p \in PosIn(k) : TRUE) - 1>>)]

BuildRowWith(plen) ==
  /\ pc = "build" /\ li <= Len(lt)
  /\ LET toks == Ordered(lt[li], ord)  n == Len(toks) IN
       /\ idx' = IF Mode = "size" THEN idx ELSE AddPostings(idx, li - 1, toks, plen)
       /\ sizes' = Append(sizes, n)
       /\ ltoks' = Append(ltoks, toks)
       /\ plens' = Append(plens, plen)
       /\ empties' = IF n = 0 THEN Append(empties, li - 1) ELSE empties
       /\ minlen' = Min2(minlen, n) /\ maxlen' = Max2(maxlen, n)
  /\ li' = li + 1
  /\ UNCHANGED <<lt, rt, thr, op, pc, ord, ri, out>>

PrefixParam(n) == IF Sabotage = "short-prefix" THEN {Max2(0, IdealPrefix(Meas, thr, n) - 1)}
                  ELSE {Min2(n, IdealPrefix(Meas, thr, n) + d) : d \in {0, 1}}
BuildRow == /\ pc = "build" /\ li <= Len(lt)
            /\ \E plen \in PrefixParam(Cardinality(lt[li])) : BuildRowWith(plen)

BuildDone == /\ pc = "build" /\ li > Len(lt)
             /\ pc' = "probe"
             /\ UNCHANGED <<lt, rt, thr, op, ord, li, ri, idx, sizes, ltoks, plens, empties, minlen, maxlen, out>>

(* candidate_overlap of find_candidates for left row l (0-based), from the index contents *)
CandOverlap(l, ytoks, rp, lb, ub, otf(_)) ==
  LET xn == sizes[l + 1]
      xpre == Slice0(ltoks[l + 1], 0, plens[l + 1])
  IN  IF ~(lb <= xn /\ xn <= ub) THEN 0
      ELSE PosCandLoop(xpre, Slice0(ytoks, 0, rp), 0, Len(ytoks), xn, otf(xn), 0)

(* score of a verified candidate, as the set of admissible 4-decimal roundings / exact value *)
Verified(l, r) ==
  LET x == lt[l + 1]  y == rt[r + 1] IN
  IF Meas \in RoundedMeasures
  THEN {s \in Score4Set(Meas, x, y) : CmpInt(op, s * thr[2], thr[1] * 10000)}
  ELSE IF RawSat(Meas, op, thr, x, y) THEN {-1} ELSE {}

ProbeRowWith(rp, lb, ub, otf(_)) ==
  /\ pc = "probe" /\ ri <= Len(rt)
  /\ LET ytoks == Ordered(rt[ri], ord)  m == Len(ytoks)  r == ri - 1 IN
       IF HandleEmpty /\ m = 0
       THEN out' = out \cup {<<empties[k], r, IF Mode = "join" THEN 10000 ELSE -1>> : k \in DOMAIN empties}
       ELSE LET cands == CASE Mode \in {"join", "position"} ->
                              {l \in 0..(Len(lt) - 1) : DOMAIN idx # {}
                                   /\ CandOverlap(l, ytoks, rp, Max2(lb, minlen), Min2(ub, maxlen), otf) > 0}
                           [] Mode = "prefix" ->
                              {l \in 0..(Len(lt) - 1) :
                                   SeqToSet(Slice0(ltoks[l + 1], 0, plens[l + 1])) \cap SeqToSet(Slice0(ytoks, 0, rp)) # {}}
                           [] Mode = "size" ->
                              {l \in 0..(Len(lt) - 1) : sizes[l + 1] > 0 /\ lb <= m /\ lb <= sizes[l + 1] /\ sizes[l + 1] <= ub}
            IN  IF Mode = "join"
                THEN out' = out \cup UNION {{<<l, r, s>> : s \in Verified(l, r)} : l \in cands}
                ELSE out' = out \cup {<<l, r, -1>> : l \in cands}
  /\ ri' = ri + 1
  /\ UNCHANGED <<lt, rt, thr, op, pc, ord, li, idx, sizes, ltoks, plens, empties, minlen, maxlen>>

ProbeRow ==
  /\ pc = "probe" /\ ri <= Len(rt)
  /\ LET m == Cardinality(rt[ri]) IN
       \E rp \in PrefixParam(m), dl \in {0, 1}, du \in {0, 1}, dt \in {0, 1} :
          ProbeRowWith(rp,
                       Max2(0, IdealSizeLB(Meas, thr, m) - dl + (IF Sabotage = "narrow-size" THEN 2 ELSE 0)),
                       Min2(BigSize, IdealSizeUB(Meas, thr, m) + du),
                       LAMBDA xn : Max2(0, IdealOverlap(Meas, thr, xn, m) - dt + (IF Sabotage = "high-overlap" THEN 2 ELSE 0)))

Finish == /\ pc = "probe" /\ ri > Len(rt)
          /\ pc' = "done"
          /\ UNCHANGED <<lt, rt, thr, op, ord, li, ri, idx, sizes, ltoks, plens, empties, minlen, maxlen, out>>

Next == GenOrder \/ BuildRow \/ BuildDone \/ ProbeRow \/ Finish
Spec == Init /\ [][Next]_vars

-----------------------------------------------------------------------------
(* Properties of a finished worker *)
OutPairs == {<<o[1], o[2]>> : o \in out}
Pair(l, r) == <<lt[l + 1], rt[r + 1]>>
AllPairs == {<<l, r>> : l \in 0..(Len(lt) - 1), r \in 0..(Len(rt) - 1)}

(* C01 / C04: no qualifying pair is lost, whatever admissible arithmetic was used *)
Complete ==
  pc = "done" =>
    \A p \in AllPairs :
       LET x == lt[p[1] + 1]  y == rt[p[2] + 1] IN
       (IF Mode = "join" THEN MustPair(Meas, op, thr, x, y) ELSE KeepMust(Meas, thr, x, y)) => p \in OutPairs
(* C02: only qualifying pairs, with an admissible score *)
Sound ==
  (pc = "done" /\ Mode = "join") =>
    \A o \in out :
       LET x == lt[o[1] + 1]  y == rt[o[2] + 1] IN
       \/ BothEmpty(x, y) /\ HandleEmpty /\ o[3] = 10000
       \/ MayPair(Meas, op, thr, x, y) /\ (Meas \in RoundedMeasures => o[3] \in Score4Set(Meas, x, y))
(* C09 *)
EmptyRule ==
  pc = "done" =>
    \A p \in AllPairs :
       LET x == lt[p[1] + 1]  y == rt[p[2] + 1] IN
       /\ BothEmpty(x, y) => ((p \in OutPairs) <=> HandleEmpty)
       /\ (OneEmpty(x, y) /\ Mode = "join") => p \notin OutPairs
(* C14: position / prefix candidates share a token *)
SharesToken ==
  (pc = "done" /\ Mode \in {"position", "prefix"}) =>
    \A o \in out : LET x == lt[o[1] + 1]  y == rt[o[2] + 1] IN BothEmpty(x, y) \/ x \cap y # {}
(* the index is consistent with the cached tokens: postings of row l are exactly its prefix *)
IndexOK ==
  (pc \in {"probe", "done"} /\ Mode # "size") =>
    \A l \in 0..(Len(lt) - 1) :
       LET pre == Slice0(ltoks[l + 1], 0, plens[l + 1]) IN
       \A p \in 1..Len(pre) : \E e \in SeqToSet(idx[pre[p]]) : e[1] = l /\ e[2] = p - 1
TypeOK == pc \in {"order", "build", "probe", "done"} /\ li \in 1..(Len(lt) + 1) /\ ri \in 1..(Len(rt) + 1)
=============================================================================
