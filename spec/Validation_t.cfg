SPECIFICATION Spec
CONSTANTS
  MaxFaults = 2
  FaultShapes = {"normal", "onerow", "norows", "allmissing"}
  FaultDtypes = {"object", "str"}
  FaultFlags = {0, 1}
  FaultThr = {"mid"}
CHECK_DEADLOCK FALSE
