SPECIFICATION TSpec
CONSTANTS
  GridN = 1
  MaxSmall = 4
  BigSizes = {20000}
INVARIANT Report
CHECK_DEADLOCK FALSE
