SPECIFICATION TSpec
CONSTANTS
  MaxSmall = 4
  BigSizes = {20000}
INVARIANT Report
CHECK_DEADLOCK FALSE
