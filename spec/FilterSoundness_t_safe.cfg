SPECIFICATION Spec
CONSTANTS
  MaxU = 9
  Variant = "repaired"
  Measures = {"JACCARD", "COSINE", "DICE", "OVERLAP"}
INVARIANT Safe
INVARIANT Tight
CHECK_DEADLOCK FALSE
