------------------------------- MODULE Filters -------------------------------
(***************************************************************************)
(* The pruning logic of py_stringsimjoin as functions of ordered token     *)
(* lists, structured like the implementation:                              *)
(*   - Bounds: the exact (ideal) prefix length, size window and required   *)
(*     overlap for a threshold p/q, and the envelopes inside which the     *)
(*     values used by the code must lie for the filters to be safe (C04)   *)
(*     and tight (C14);                                                    *)
(*   - the decision procedures of filter_pair / find_candidates of the     *)
(*     Size, Prefix and Position filters and of the suffix filter, with    *)
(*     the arithmetic values as *parameters* (model checking chooses them  *)
(*     inside the envelope, trace validation binds them to logged values); *)
(*   - the code's own arithmetic (filter/filter_utils.py) transcribed with *)
(*     exact 4-decimal rounding, used by the implementation layer.         *)
(* Token lists are strictly increasing sequences of ranks (sets) or        *)
(* non-decreasing sequences (bags of q-grams).                             *)
(***************************************************************************)
EXTENDS Semantics

FilterMeasures == {"JACCARD", "COSINE", "DICE", "OVERLAP"}

-----------------------------------------------------------------------------
(* Bounds: ideal values.  t = <<p, q>>, 0 < p <= q (OVERLAP: q = 1).        *)

(* smallest overlap that a set of n tokens needs with ANY qualifying partner *)
MinOverlapAny(meas, t, n) ==
  LET p == t[1]  q == t[2] IN
  CASE meas = "JACCARD" -> CeilDiv(p * n, q)
    [] meas = "COSINE"  -> CeilDiv(p * p * n, q * q)
    [] meas = "DICE"    -> CeilDiv(p * n, 2 * q - p)
    [] meas = "OVERLAP" -> p

IdealPrefix(meas, t, n) == Max2(0, Min2(n, n - MinOverlapAny(meas, t, n) + 1))

IdealSizeLB(meas, t, n) == MinOverlapAny(meas, t, n)
BigSize == 1000000
IdealSizeUB(meas, t, n) ==
  LET p == t[1]  q == t[2] IN
  CASE meas = "JACCARD" -> (q * n) \div p
    [] meas = "COSINE"  -> (q * q * n) \div (p * p)
    [] meas = "DICE"    -> ((2 * q - p) * n) \div p
    [] meas = "OVERLAP" -> BigSize

(* smallest a >= 0 with a^2 q^2 >= p^2 n m *)
RECURSIVE CosCeil(_, _, _, _, _)
CosCeil(t, n, m, lo, hi) ==
  IF lo = hi THEN lo
  ELSE LET mid == (lo + hi) \div 2
       IN  IF BigCmp(BigProd(<<mid, mid, t[2], t[2]>>), BigProd(<<t[1], t[1], n, m>>)) >= 0
           THEN CosCeil(t, n, m, lo, mid) ELSE CosCeil(t, n, m, mid + 1, hi)

(* overlap every qualifying pair of sizes n, m must reach *)
IdealOverlap(meas, t, n, m) ==
  LET p == t[1]  q == t[2] IN
  CASE meas = "JACCARD" -> CeilDiv(p * (n + m), q + p)
    [] meas = "COSINE"  -> CosCeil(t, n, m, 0, Max2(n, m))
    [] meas = "DICE"    -> CeilDiv(p * (n + m), 2 * q)
    [] meas = "OVERLAP" -> p

(* Envelopes: values with which the filters remain safe *)
PrefixAdmissible(meas, t, n, v)     == v >= IdealPrefix(meas, t, n)
SizeLBAdmissible(meas, t, n, v)     == v <= IdealSizeLB(meas, t, n)
SizeUBAdmissible(meas, t, n, v)     == v >= Min2(IdealSizeUB(meas, t, n), BigSize)
OverlapAdmissible(meas, t, n, m, v) ==
  IF meas = "COSINE"
  THEN (* v <= smallest a with a^2 q^2 >= p^2 n m  <=>  (v-1)^2 q^2 < p^2 n m *)
       v <= 0 \/ BigCmp(BigProd(<<v - 1, v - 1, t[2], t[2]>>), BigProd(<<t[1], t[1], n, m>>)) < 0
  ELSE v <= IdealOverlap(meas, t, n, m)

(* C14 tightness of the size window: a partner size m whose best attainable *)
(* similarity with a set of size n is more than 10^-4 below the threshold   *)
(* must be dropped.  Best attainable: J min/max, C sqrt(min/max),           *)
(* D 2 min/(n+m).  "more than 1e-4 below": sim < t - 1/10^4, i.e.           *)
(* sim * 10^4 q < (10^4 p - q).                                             *)
MustDropBySize(meas, t, n, m) ==
  LET p == t[1]  q == t[2]  lo == Min2(n, m)  hi == Max2(n, m)  c == 10000 * p - q IN
  IF c <= 0 \/ hi = 0 THEN FALSE
  ELSE CASE meas = "JACCARD" -> BigCmp(BigProd(<<lo, 10000, q>>), BigProd(<<c, hi>>)) < 0
         [] meas = "DICE"    -> BigCmp(BigProd(<<2, lo, 10000, q>>), BigProd(<<c, n + m>>)) < 0
         [] meas = "COSINE"  -> (* sqrt(lo/hi) < c/(10^4 q)  <=>  lo (10^4 q)^2 < c^2 hi *)
              BigCmp(BigProd(<<lo, 10000, 10000, q, q>>), BigProd(<<c, c, hi>>)) < 0
         [] OTHER -> FALSE

-----------------------------------------------------------------------------
(* The code's arithmetic (filter_utils.py) for thresholds p/q, transcribed  *)
(* with exact rounding; each operator returns the SET of values the float   *)
(* computation may produce (two at exact decimal ties).                     *)
CeilOfR4(set) == {CeilDiv(s, 10000) : s \in set}
FloorOfR4(set) == {s \div 10000 : s \in set}

(* admissible 4-decimal roundings of (p/q) * sqrt(n m) * 10^4 *)
RECURSIVE CosOTFloor(_, _, _, _, _)
CosOTFloor(t, n, m, lo, hi) ==          \* largest s with s^2 q^2 <= 10^8 p^2 n m
  IF lo = hi THEN lo
  ELSE LET mid == (lo + hi + 1) \div 2
       IN  IF BigCmp(BigProd(<<mid, mid, t[2], t[2]>>),
                     BigProd(<<10000, 10000, t[1], t[1], n, m>>)) <= 0
           THEN CosOTFloor(t, n, m, mid, hi) ELSE CosOTFloor(t, n, m, lo, mid - 1)
CosOTR4Set(t, n, m) ==
  LET f == CosOTFloor(t, n, m, 0, 10000 * Max2(n, m) + 1)
      Ok(s) == LET mid == BigProd(<<4, 10000, 10000, t[1], t[1], n, m>>)
                   lo  == IF s = 0 THEN <<>> ELSE BigProd(<<2 * s - 1, 2 * s - 1, t[2], t[2]>>)
                   hi  == BigProd(<<2 * s + 1, 2 * s + 1, t[2], t[2]>>)
               IN  BigCmp(lo, mid) <= 0 /\ BigCmp(mid, hi) <= 0
  IN  {s \in {f, f + 1} : Ok(s)}

CodeSizeLB(meas, t, n) ==
  LET p == t[1]  q == t[2] IN
  CASE meas = "JACCARD" -> CeilOfR4(R4Set(p * n, q))
    [] meas = "COSINE"  -> CeilOfR4(R4Set(p * p * n, q * q))
    [] meas = "DICE"    -> CeilOfR4(R4Set(p * n, 2 * q - p))
    [] meas = "OVERLAP" -> {p}

CodeSizeUB(meas, t, n) ==
  LET p == t[1]  q == t[2] IN
  CASE meas = "JACCARD" -> FloorOfR4(R4Set(q * n, p))
    [] meas = "COSINE"  -> FloorOfR4(R4Set(q * q * n, p * p))
    [] meas = "DICE"    -> FloorOfR4(R4Set((2 * q - p) * n, p))
    [] meas = "OVERLAP" -> {BigSize}

CodePrefix(meas, t, n) ==
  IF n = 0 THEN {0}
  ELSE IF meas = "OVERLAP" THEN {Max2(n - t[1] + 1, 0)}
  ELSE {Min2(n - c + 1, n) : c \in CodeSizeLB(meas, t, n)}

CodeOverlap(meas, t, n, m) ==
  LET p == t[1]  q == t[2] IN
  CASE meas = "JACCARD" -> CeilOfR4(R4Set(p * (n + m), q + p))
    [] meas = "COSINE"  -> CeilOfR4(CosOTR4Set(t, n, m))
    [] meas = "DICE"    -> CeilOfR4(R4Set(p * (n + m), 2 * q))
    [] meas = "OVERLAP" -> {p}

(* edit distance: tau integral, q-gram length qv; n, m are q-gram counts *)
EDPrefix(tau, qv, n)    == Min2(qv * tau + 1, n)
EDSizeLB(tau, n)        == n - tau
EDSizeUB(tau, n)        == n + tau
EDOverlap(tau, qv, n, m) == Max2(n, m) - qv * tau

-----------------------------------------------------------------------------
(* Decision procedures.  xs = ordered tokens of the left / indexed string,  *)
(* ys = ordered tokens of the right / probing string.  TRUE = dropped.      *)

SizeDrop(m, lb, ub) == ~(lb <= m /\ m <= ub)

PrefixDrop(xs, ys, lp, rp) ==
  \/ lp <= 0 \/ rp <= 0
  \/ SeqToSet(Slice0(xs, 0, lp)) \cap SeqToSet(Slice0(ys, 0, rp)) = {}

(* PositionFilter.filter_pair as written: the left position is never        *)
(* advanced (every token maps to position 0).                               *)
RECURSIVE PosPairLoop(_, _, _, _, _, _, _)
PosPairLoop(ysp, lpre, ln, rn, ot, rpos, cur) ==       \* -1 = dropped early
  IF rpos > Len(ysp) THEN cur
  ELSE IF ysp[rpos] \in lpre
       THEN LET ub == 1 + Min2(ln - 0 - 1, rn - (rpos - 1) - 1) IN
            IF cur + ub < ot THEN -1
            ELSE PosPairLoop(ysp, lpre, ln, rn, ot, rpos + 1, cur + 1)
       ELSE PosPairLoop(ysp, lpre, ln, rn, ot, rpos + 1, cur)
PositionPairDrop(xs, ys, lp, rp, ot) ==
  \/ lp <= 0 \/ rp <= 0
  \/ PosPairLoop(Slice0(ys, 0, rp), SeqToSet(Slice0(xs, 0, lp)), Len(xs), Len(ys), ot, 1, 0) <= 0

(* PositionFilter.find_candidates restricted to one candidate xs whose       *)
(* prefix of length lp is indexed with positions.  Returns the final value   *)
(* of candidate_overlap[cand] (absent = 0, -1 = pruned for good).            *)
(* A token occurring k times in the indexed prefix has k postings (bags).    *)
RECURSIVE PosCandInner(_, _, _, _, _, _, _, _)
(* postings of token tok in the indexed prefix, in increasing position       *)
PosCandInner(xpre, tok, cpos, pn, ppos, xn, ot, cur) ==
  IF cpos > Len(xpre) THEN cur
  ELSE IF xpre[cpos] # tok \/ cur = -1
       THEN PosCandInner(xpre, tok, cpos + 1, pn, ppos, xn, ot, cur)
       ELSE LET ub == Min2(pn - ppos, xn - (cpos - 1)) IN
            PosCandInner(xpre, tok, cpos + 1, pn, ppos, xn, ot,
                         IF cur + ub >= ot THEN cur + 1 ELSE -1)
RECURSIVE PosCandLoop(_, _, _, _, _, _, _)
PosCandLoop(xpre, ypre, ppos, pn, xn, ot, cur) ==       \* ppos 0-based
  IF ppos >= Len(ypre) THEN cur
  ELSE PosCandLoop(xpre, ypre, ppos + 1, pn, xn, ot,
                   PosCandInner(xpre, ypre[ppos + 1], 1, pn, ppos, xn, ot, cur))
PositionCand(xs, ys, lp, rp, lb, ub, ot) ==
  IF ~(lb <= Len(xs) /\ Len(xs) <= ub) THEN 0
  ELSE PosCandLoop(Slice0(xs, 0, lp), Slice0(ys, 0, rp), 0, Len(ys), Len(xs), ot, 0)
PositionCandKept(xs, ys, lp, rp, lb, ub, ot) == PositionCand(xs, ys, lp, rp, lb, ub, ot) > 0

(* PrefixFilter.find_candidates for one candidate *)
PrefixCandKept(xs, ys, lp, rp) ==
  SeqToSet(Slice0(xs, 0, lp)) \cap SeqToSet(Slice0(ys, 0, rp)) # {}

-----------------------------------------------------------------------------
(* Suffix filter, transcription of filter/suffix_filter.py.  Python's       *)
(* int(x/2) truncates toward zero; halves are kept as doubled integers.     *)
Trunc2(d) == IF d >= 0 THEN d \div 2 ELSE -((-d) \div 2)

RECURSIVE BinSearch(_, _, _, _)
BinSearch(toks, w, left, right) ==
  IF left = right THEN left
  ELSE LET mid == (left + right) \div 2  mt == toks[mid + 1] IN
       IF mt = w THEN mid
       ELSE IF mt < w THEN BinSearch(toks, w, mid + 1, right)
                      ELSE BinSearch(toks, w, left, mid)

NoPartition == [l |-> <<>>, r |-> <<>>, f |-> 0, d |-> 1]
Partition(toks, w, left, right0) ==
  LET right == Min2(right0, Len(toks) - 1) IN
  IF right < left THEN NoPartition
  ELSE IF toks[left + 1] > w THEN NoPartition
  ELSE IF toks[right + 1] < w THEN NoPartition
  ELSE LET pos == BinSearch(toks, w, left, right) IN
       IF toks[pos + 1] = w
       THEN [l |-> Slice0(toks, 0, pos), r |-> Slice0(toks, pos + 1, Len(toks)), f |-> 1, d |-> 0]
       ELSE [l |-> Slice0(toks, 0, pos), r |-> Slice0(toks, pos, Len(toks)),     f |-> 1, d |-> 1]

RECURSIVE EstHamming(_, _, _, _, _, _)
(* ln, rn are passed separately as the code does (they equal the lengths    *)
(* except when a prefix is longer than the token list)                      *)
EstHamming(ls, rs, ln, rn, hmax, depth) ==
  LET ad == Abs(ln - rn) IN
  IF depth > 2 \/ ln = 0 \/ rn = 0 THEN ad
  ELSE IF ln = 1 /\ rn = 1 THEN (IF ls[1] = rs[1] THEN 0 ELSE 1)
  ELSE LET rmid == rn \div 2
           w    == rs[rmid + 1]
           o2   == hmax - ad                       \* 2 * o
           ol   == IF ln < rn THEN 1 ELSE 0
           orr  == IF ln < rn THEN 0 ELSE 1
           pr   == Partition(rs, w, rmid, rmid)
           pl   == Partition(ls, w, Max2(0, Trunc2(2 * rmid - o2 - 2 * ad * ol)),
                                    Min2(ln - 1, Trunc2(2 * rmid + o2 + 2 * ad * orr)))
       IN  IF pl.f = 0 THEN hmax + 1
           ELSE LET rl == Len(pr.l)  rr == Len(pr.r)  ll == Len(pl.l)  lr == Len(pl.r)
                    diff == pl.d
                    hd == Abs(ll - rl) + Abs(lr - rr) + diff
                IN  IF hd > hmax THEN hd
                    ELSE LET hl  == EstHamming(pl.l, pr.l, ll, rl, hmax - Abs(lr - rr) - diff, depth + 1)
                             hd2 == hl + Abs(lr - rr) + diff
                         IN  IF hd2 <= hmax
                             THEN hl + EstHamming(pl.r, pr.r, lr, rr, hmax - hl - diff, depth + 1) + diff
                             ELSE hd2

(* _filter_suffix; lsuf / rsuf are the suffixes, lp / rp the prefix lengths *)
SuffixDrop(lsuf, rsuf, lp, rp, ln, rn, ot) ==
  IF lp >= ot /\ rp >= ot THEN FALSE
  ELSE LET hmax == ln + rn - 2 * ot IN
       ~(EstHamming(lsuf, rsuf, ln - lp, rn - rp, hmax, 1) <= hmax)

SuffixPairDrop(xs, ys, lp, rp, ot) ==
  \/ lp <= 0 \/ rp <= 0
  \/ SuffixDrop(Slice0(xs, lp, Len(xs)), Slice0(ys, rp, Len(ys)), lp, rp, Len(xs), Len(ys), ot)


-----------------------------------------------------------------------------
(* Suffix filter, repaired variant (see DESIGN.md section 6, defect 5):      *)
(*  (a) the partition prunes only when the probe token provably lies outside *)
(*      the search window; when the window was merely clipped at an end of   *)
(*      the token list the list is partitioned at that end instead;          *)
(*  (b) the Hamming budget of the suffixes is the whole-set budget plus      *)
(*      |lp - rp|: under a common order at most max(lp, rp) of the shared    *)
(*      tokens lie in a prefix, so                                           *)
(*      H(lsuf, rsuf) <= ln + rn - 2 o + |lp - rp|.                          *)
PartitionR(toks, w, left, right0) ==
  LET right == Min2(right0, Len(toks) - 1) IN
  IF right < left THEN NoPartition
  ELSE IF toks[left + 1] > w
       THEN (IF left = 0 THEN [l |-> <<>>, r |-> toks, f |-> 1, d |-> 1] ELSE NoPartition)
  ELSE IF toks[right + 1] < w
       THEN (IF right = Len(toks) - 1 THEN [l |-> toks, r |-> <<>>, f |-> 1, d |-> 1] ELSE NoPartition)
  ELSE LET pos == BinSearch(toks, w, left, right) IN
       IF toks[pos + 1] = w
       THEN [l |-> Slice0(toks, 0, pos), r |-> Slice0(toks, pos + 1, Len(toks)), f |-> 1, d |-> 0]
       ELSE [l |-> Slice0(toks, 0, pos), r |-> Slice0(toks, pos, Len(toks)),     f |-> 1, d |-> 1]

RECURSIVE EstHammingR(_, _, _, _, _, _)
EstHammingR(ls, rs, ln, rn, hmax, depth) ==
  LET ad == Abs(ln - rn) IN
  IF depth > 2 \/ ln = 0 \/ rn = 0 THEN ad
  ELSE IF ln = 1 /\ rn = 1 THEN (IF ls[1] = rs[1] THEN 0 ELSE 1)
  ELSE LET rmid == rn \div 2
           w    == rs[rmid + 1]
           o2   == hmax - ad
           ol   == IF ln < rn THEN 1 ELSE 0
           orr  == IF ln < rn THEN 0 ELSE 1
           pr   == PartitionR(rs, w, rmid, rmid)
           pl   == PartitionR(ls, w, Max2(0, Trunc2(2 * rmid - o2 - 2 * ad * ol)),
                                     Min2(ln - 1, Trunc2(2 * rmid + o2 + 2 * ad * orr)))
       IN  IF pl.f = 0 THEN hmax + 1
           ELSE LET rl == Len(pr.l)  rr == Len(pr.r)  ll == Len(pl.l)  lr == Len(pl.r)
                    diff == pl.d
                    hd == Abs(ll - rl) + Abs(lr - rr) + diff
                IN  IF hd > hmax THEN hd
                    ELSE LET hl  == EstHammingR(pl.l, pr.l, ll, rl, hmax - Abs(lr - rr) - diff, depth + 1)
                             hd2 == hl + Abs(lr - rr) + diff
                         IN  IF hd2 <= hmax
                             THEN hl + EstHammingR(pl.r, pr.r, lr, rr, hmax - hl - diff, depth + 1) + diff
                             ELSE hd2

SuffixDropR(lsuf, rsuf, lp, rp, ln, rn, ot) ==
  IF lp >= ot /\ rp >= ot THEN FALSE
  ELSE LET hmax == ln + rn - 2 * ot + Abs(lp - rp) IN
       ~(EstHammingR(lsuf, rsuf, ln - lp, rn - rp, hmax, 1) <= hmax)

SuffixPairDropR(xs, ys, lp, rp, ot) ==
  \/ lp <= 0 \/ rp <= 0
  \/ SuffixDropR(Slice0(xs, lp, Len(xs)), Slice0(ys, rp, Len(ys)), lp, rp, Len(xs), Len(ys), ot)

=============================================================================
