---- MODULE MC_Bounds_9_10 ----
EXTENDS Integers
VARIABLES
  \* @type: Int;
  n,
  \* @type: Int;
  m,
  \* @type: Int;
  o
P == 9
Q == 10
INSTANCE BoundsLemma
====
