SPECIFICATION Spec
CONSTANTS
  MaxReq = 3
  Sabotage = "table-order"
INVARIANT CellsRight
INVARIANT HeaderRight
CHECK_DEADLOCK FALSE
