SPECIFICATION FairSpec
CONSTANTS
  NTok = 3
  MaxL = 2
  MaxR = 2
  Meas = "OVERLAP"
  AllowEmpty = FALSE
  Sabotage = "none"
INVARIANT Safe
INVARIANT EmptyRule
INVARIANT Once
PROPERTY Terminates
CHECK_DEADLOCK FALSE
