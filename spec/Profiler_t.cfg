SPECIFICATION Spec
CONSTANTS
  GridN = 90
  MaxSmall = 5
  BigSizes = {9999, 10001, 19999, 20000, 20001, 20002, 25000, 30000, 40000, 60001}
CHECK_DEADLOCK FALSE
