----------------------------- MODULE GenCandsets -----------------------------
(***************************************************************************)
(* Case space of engine E5: candidate sets over a 2 x 2 key space.  A case *)
(* is a sequence of at most MaxC distinct key pairs (any subset and order  *)
(* of the cross product, which puts the candidate set on both sides of the *)
(* matcher's token-cache switch |L| + |R| < 2 |C|) together with the set   *)
(* of rows whose match value is missing.  Left keys 1, 2; right keys 3, 4. *)
(***************************************************************************)
EXTENDS Integers, Sequences, FiniteSets, TLC, Json

CONSTANTS MaxC

Pairs == {<<l, r>> : l \in {1, 2}, r \in {3, 4}}
Inj(n) == {s \in [1..n -> Pairs] : \A a, b \in 1..n : a # b => s[a] # s[b]}
Candsets == UNION {Inj(n) : n \in 0..MaxC}

VARIABLES cand, miss
vars == <<cand, miss>>

Init == /\ cand \in Candsets
        /\ miss \in SUBSET {1, 2, 3, 4}
        /\ PrintT(<<"GEN", ToJson([C |-> cand, M |-> miss])>>)
Next == UNCHANGED vars
Spec == Init /\ [][Next]_vars
=============================================================================
