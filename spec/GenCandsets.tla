----------------------------- MODULE GenCandsets -----------------------------
(***************************************************************************)
(* Case space of engine E5: candidate sets over a 2 x 2 key space.  A case *)
(* is a sequence of at most MaxC distinct key pairs (any subset and order  *)
(* of the cross product, which puts the candidate set on both sides of the *)
(* matcher's token-cache switch |L| + |R| < 2 |C|) together with the set   *)
(* of rows whose match value is missing.  Left keys 1, 2; right keys 3, 4. *)
(***************************************************************************)
EXTENDS Integers, Sequences, FiniteSets, TLC, Json

CONSTANTS MaxC, MaxLong, MaxJobs, MaxWide, WideJobs

Pairs == {<<l, r>> : l \in {1, 2}, r \in {3, 4}}
Inj(n) == {s \in [1..n -> Pairs] : \A a, b \in 1..n : a # b => s[a] # s[b]}
Candsets == UNION {Inj(n) : n \in 0..MaxC}

(* long candidate sets: the first n pairs of a fixed enumeration of a 4 x 4 key space, split over *)
(* k jobs - every (length, jobs) combination, so that every chunk boundary position occurs        *)
LongPairs == [n \in 1..16 |-> <<1 + ((n - 1) % 4), 5 + ((n - 1) \div 4)>>]
Longs == {<<n, k>> : n \in 1..MaxLong, k \in 2..MaxJobs}

(* wide candidate sets: n rows cycling through the same enumeration (key pairs repeat; rows are told *)
(* apart by _id), split over k jobs for every k in WideJobs - chunk boundaries at every position,   *)
(* more jobs than rows and more jobs than processors                                               *)
WidePairs(n) == [j \in 1..n |-> LongPairs[1 + ((j - 1) % 16)]]
Wides == {<<n, k>> : n \in (MaxLong + 1)..MaxWide, k \in WideJobs}

VARIABLES cand, miss, jobs
vars == <<cand, miss, jobs>>

Init == \/ /\ cand \in Candsets
           /\ miss \in SUBSET {1, 2, 3, 4}
           /\ jobs = 0
           /\ PrintT(<<"GEN", ToJson([kind |-> "small", C |-> cand, M |-> miss, jobs |-> jobs])>>)
        \/ \E nk \in Longs :
              /\ cand = SubSeq(LongPairs, 1, nk[1])
              /\ miss \in {{}, {2}}
              /\ jobs = nk[2]
              /\ PrintT(<<"GEN", ToJson([kind |-> "long", C |-> cand, M |-> miss, jobs |-> jobs])>>)
        \/ \E nk \in Wides :
              /\ cand = WidePairs(nk[1])
              /\ miss = IF nk[1] % 3 = 0 THEN {2} ELSE {}
              /\ jobs = nk[2]
              /\ PrintT(<<"GEN", ToJson([kind |-> "long", C |-> cand, M |-> miss, jobs |-> jobs])>>)
Next == UNCHANGED vars
Spec == Init /\ [][Next]_vars
=============================================================================
