SPECIFICATION Spec
CONSTANTS
  NTok = 3
  MaxL = 2
  MaxR = 1
  Mode = "overlap"
  AllowEmpty = TRUE
  Sabotage = "none"
INVARIANT Exact
CHECK_DEADLOCK FALSE
