SPECIFICATION Spec
CONSTANTS
  MaxR = 6
CHECK_DEADLOCK FALSE
