SPECIFICATION Spec
CONSTANTS
  NTok = 2
  MaxL = 1
  MaxR = 2
  MaxJobs = 3
  Meas = "JACCARD"
  Mode = "posfilter"
  Sabotage = "none"
INVARIANT JoinResult
INVARIANT FilterResult
INVARIANT IdsOK
INVARIANT FlagRestored
PROPERTY FlagOnlyInside
CHECK_DEADLOCK FALSE
