-------------------------- MODULE TraceWorkersSuffix --------------------------
(***************************************************************************)
(* Implementation-layer trace validation of the SuffixFilter.filter_tables *)
(* worker: the hook events of one run (worker_start with the token order,  *)
(* one filter_suffix event per examined pair with the prefix lengths, the  *)
(* required overlap and the decision, worker_end with the emitted rows)    *)
(* replayed through the actions of WorkersSuffix.tla.  The arithmetic      *)
(* values logged by the code are bound to the parameters of the Pair       *)
(* action and must lie in the Code* sets of Filters.tla; the decision must *)
(* equal SuffixPairDropR on the ordered token sequences.  Findings are     *)
(* DRIFT.  A batch holds traces of one (Meas, AllowEmpty).                 *)
(***************************************************************************)
EXTENDS WorkersSuffix, Json, IOUtils

Traces == JsonDeserialize(IOEnv.TRACE_FILE)
VARIABLES tid, ei, note
tvars == <<tid, ei, note>>
Tr == Traces[tid]

TabOf(rows) == [k \in 1..Len(rows) |-> SeqToSet(rows[k])]
Load(k) == /\ lt' = TabOf(Traces[k].L) /\ rt' = TabOf(Traces[k].R)
           /\ thr' = <<Traces[k].t[1], Traces[k].t[2]>>
           /\ pc' = "order" /\ ord' = <<>> /\ li' = 1 /\ ri' = 1 /\ out' = {} /\ emitted' = 0
TInit == /\ tid = 1 /\ ei = 1 /\ note = {}
         /\ lt = TabOf(Traces[1].L) /\ rt = TabOf(Traces[1].R)
         /\ thr = <<Traces[1].t[1], Traces[1].t[2]>>
         /\ pc = "order" /\ ord = <<>> /\ li = 1 /\ ri = 1 /\ out = {} /\ emitted = 0

Add(ok, clause) == IF ok THEN note ELSE note \cup {clause}

OrdMatches(o) == /\ Len(Tr.ord) = Cardinality(DOMAIN o)
                 /\ \A k \in DOMAIN Tr.ord : Tr.ord[k][1] \in DOMAIN o /\ o[Tr.ord[k][1]] = Tr.ord[k][2]
TOrder == /\ GenOrder
          /\ note' = Add(OrdMatches(ord'), "order")
          /\ UNCHANGED <<tid, ei>>

(* no filter_suffix event is emitted for the empty-pair branch and when a prefix length is not positive *)
NoPrefix(n) == \A p \in CodePrefix(Meas, thr, n) : p <= 0
Silent(n, m) == (HandleEmpty /\ n = 0 /\ m = 0) \/ NoPrefix(n) \/ NoPrefix(m)

TPair ==
  /\ pc = "loop" /\ li <= Len(lt) /\ ri <= Len(rt)
  /\ LET n == Cardinality(lt[li])  m == Cardinality(rt[ri])
         xs == Ordered(lt[li], ord)  ys == Ordered(rt[ri], ord) IN
       IF Silent(n, m)
       THEN PairWith(0, 0, 0) /\ UNCHANGED <<ei, note>>
       ELSE IF ei > Len(Tr.events)
            THEN /\ PairWith(IdealPrefix(Meas, thr, n), IdealPrefix(Meas, thr, m), IdealOverlap(Meas, thr, n, m))
                 /\ note' = note \cup {"missing-event"} /\ UNCHANGED ei
            ELSE LET e == Tr.events[ei]
                     (* an event that does not fit the pair (other token counts, a prefix longer than the record): *)
                     (* the logged values cannot be bound to the action; the specification's own step is taken     *)
                     fits == e.ln = n /\ e.rn = m /\ e.lp \in 1..n /\ e.rp \in 1..m /\ e.ot >= 0 IN
                 /\ IF fits THEN PairWith(e.lp, e.rp, e.ot)
                    ELSE PairWith(IdealPrefix(Meas, thr, n), IdealPrefix(Meas, thr, m), IdealOverlap(Meas, thr, n, m))
                 /\ ei' = ei + 1
                 /\ note' = IF ~fits THEN note \cup {"token-counts"}
                            ELSE Add(e.lp \in CodePrefix(Meas, thr, n) /\ e.rp \in CodePrefix(Meas, thr, m), "prefix-length")
                                 \cup Add(e.ot \in CodeOverlap(Meas, thr, n, m), "required-overlap")
                                 \cup Add((e.dropped = 1) = SuffixPairDropR(xs, ys, e.lp, e.rp, e.ot), "suffix-decision")
  /\ UNCHANGED tid

LoggedOut == {<<Tr.rows[k][1], Tr.rows[k][2]>> : k \in DOMAIN Tr.rows}
TLoopDone == /\ LoopDone
             /\ note' = Add(Len(Tr.rows) = Cardinality(LoggedOut), "duplicate-rows")
                        \cup Add(LoggedOut = out, "emitted-rows")
                        \cup Add(ei = Len(Tr.events) + 1, "unconsumed-events")
             /\ UNCHANGED <<tid, ei>>
TNextTrace == /\ pc = "done" /\ tid < Len(Traces) /\ tid' = tid + 1 /\ ei' = 1 /\ note' = {} /\ Load(tid + 1)

TNext == TOrder \/ TPair \/ TLoopDone \/ TNextTrace
TSpec == TInit /\ [][TNext]_<<vars, tvars>>
Report == pc = "done" => PrintT(<<"VERDICT", ToJson([tid |-> Tr.tid, fails |-> note])>>)
=============================================================================
