SPECIFICATION FairSpec
CONSTANTS
  NTok = 3
  MaxL = 1
  MaxR = 2
  Meas = "DICE"
  AllowEmpty = FALSE
  Sabotage = "none"
INVARIANT Safe
INVARIANT EmptyRule
INVARIANT Once
PROPERTY Terminates
CHECK_DEADLOCK FALSE
