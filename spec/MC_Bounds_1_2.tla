---- MODULE MC_Bounds_1_2 ----
EXTENDS Integers
VARIABLES
  \* @type: Int;
  n,
  \* @type: Int;
  m,
  \* @type: Int;
  o
P == 1
Q == 2
INSTANCE BoundsLemma
====
