SPECIFICATION Spec
CONSTANTS
  NTok = 3
  MaxL = 2
  MaxR = 2
CHECK_DEADLOCK FALSE
