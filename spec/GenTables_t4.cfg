SPECIFICATION Spec
CONSTANTS
  NTok = 4
  MaxL = 2
  MaxR = 2
CHECK_DEADLOCK FALSE
