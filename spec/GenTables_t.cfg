SPECIFICATION Spec
CONSTANTS
  NTok = 3
  MaxL = 3
  MaxR = 2
CHECK_DEADLOCK FALSE
