SPECIFICATION Spec
CONSTANTS
  MaxU = 7
  Variant = "repaired"
  Measures = {"JACCARD", "COSINE", "DICE", "OVERLAP"}
INVARIANT SuffixSafe
CHECK_DEADLOCK FALSE
