---- MODULE MC_Bounds_28_100 ----
EXTENDS Integers
VARIABLES
  \* @type: Int;
  n,
  \* @type: Int;
  m,
  \* @type: Int;
  o
P == 28
Q == 100
INSTANCE BoundsLemma
====
