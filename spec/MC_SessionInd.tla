---- MODULE MC_SessionInd ----
EXTENDS Integers
VARIABLES
  \* @type: Str;
  phase,
  \* @type: Int;
  cur,
  \* @type: Str -> Int;
  mode,
  \* @type: Str -> Int;
  saved
NCalls == 29
INSTANCE SessionInd
====
