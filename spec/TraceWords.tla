------------------------------ MODULE TraceWords ------------------------------
(***************************************************************************)
(* Engine E2: token arrangements.  A pair of token sets under a total      *)
(* order is a word over {0 = left only, 1 = right only, 2 = both}; word i  *)
(* of length n is the base-3 expansion of its code.  The harness runs the  *)
(* four filters' public filter_pair on the two strings and, at table       *)
(* level (left table = [x, x symmetric-difference y], right table = [y],   *)
(* which makes every token frequency 2 so that the table order is the word *)
(* order), the real index + find_candidates of the Size / Prefix /         *)
(* Position filters.  This module judges the recorded outcomes:            *)
(*   property layer   C04 KeepMust pairs are not dropped by filter_pair;   *)
(*                    C14 size tightness, no-common-token pairs dropped;   *)
(*                    C09 the empty-empty pair follows allow_empty;        *)
(*   implementation   every outcome equals the transcription in            *)
(*   layer            Filters.tla for some admissible rounding; a          *)
(*                    disagreement is reported as drift, and a table-level *)
(*                    miss as "escalate" (the harness then replays the     *)
(*                    public filter_tables / join on that table).          *)
(* One batch = one (measure, threshold); step i judges entry i.            *)
(* Entry: <<len, code, sizeD, prefixD, posD, sufD, tlSize, tlPrefix, tlPos>> *)
(* with D = 1 dropped by filter_pair, tl = 1 candidate kept, 9 = not run.  *)
(***************************************************************************)
EXTENDS Filters, Json, IOUtils

Batch == JsonDeserialize(IOEnv.TRACE_FILE)[1]
Meas == Batch.meas
T == <<Batch.t[1], Batch.t[2]>>
AE == Batch.ae = 1
Entries == Batch.entries

VARIABLES i, verdict, tab
vars == <<i, verdict, tab>>

(* Everything that depends only on the token counts is tabulated once per   *)
(* batch, in the state variable tab: TLC normalises state values fully,     *)
(* whereas a constant definition of function type is re-evaluated lazily on *)
(* every application (the cosine entries use BigNat arithmetic and would    *)
(* otherwise dominate the run time).                                        *)
U == Batch.u
MkTab ==
  [keep |-> [o \in 0..U |-> [n \in 0..U |-> [m \in 0..U |->
              IF o <= n /\ o <= m /\ n > 0 /\ m > 0
              THEN KeepMust(Meas, T, 1..n, (n - o + 1)..(n - o + m)) ELSE FALSE]]],
   prefix |-> [n \in 0..U |-> CodePrefix(Meas, T, n)],
   sizelb |-> [n \in 0..U |-> CodeSizeLB(Meas, T, n)],
   sizeub |-> [n \in 0..U |-> CodeSizeUB(Meas, T, n)],
   overlap |-> [n \in 0..U |-> [m \in 0..U |-> CodeOverlap(Meas, T, n, m)]],
   mustdrop |-> [n \in 0..U |-> [m \in 0..U |-> MustDropBySize(Meas, T, n, m)]]]
KeepTab == tab.keep
PrefixTab == tab.prefix
SizeLBTab == tab.sizelb
SizeUBTab == tab.sizeub
OverlapTab == tab.overlap
MustDropTab == tab.mustdrop

RECURSIVE Digits(_, _)
Digits(code, n) == IF n = 0 THEN <<>> ELSE Digits(code \div 3, n - 1) \o <<code % 3>>

XSet(w) == {k \in DOMAIN w : w[k] \in {0, 2}}
YSet(w) == {k \in DOMAIN w : w[k] \in {1, 2}}

(* pair-level order of filter_pair: frequency over the two lists, then id *)
PairRanks(s, x, y) ==
  LET freq == [k \in x \cup y |-> IF k \in x /\ k \in y THEN 2 ELSE 1]
  IN  SortAsc([j \in 1..Cardinality(s) |-> RankIn(freq, SortSet(s)[j])])

Judge(e) ==
  LET w == Digits(e[2], e[1])
      x == XSet(w)   y == YSet(w)
      n == Cardinality(x)   m == Cardinality(y)
      both == n = 0 /\ m = 0
      keep == KeepTab[Cardinality(x \cap y)][n][m]
      shares == x \cap y # {}
      (* pair level *)
      pxs == PairRanks(x, x, y)   pys == PairRanks(y, x, y)
      (* table level: word order *)
      txs == SortSet(x)           tys == SortSet(y)
      ModelPair(lp, rp, lb, ub, ot) ==
         <<IF SizeDrop(m, lb, ub) THEN 1 ELSE 0,
           IF PrefixDrop(pxs, pys, lp, rp) THEN 1 ELSE 0,
           IF PositionPairDrop(pxs, pys, lp, rp, ot) THEN 1 ELSE 0,
           IF SuffixPairDropR(pxs, pys, lp, rp, ot) THEN 1 ELSE 0>>
      (* find_candidates: probe = y (size m), indexed = x (size n) *)
      ModelTab(lp, rp, lbp, ubp, ot) ==
         <<IF n > 0 /\ lbp <= m /\ lbp <= n /\ n <= ubp THEN 1 ELSE 0,
           IF PrefixCandKept(txs, tys, lp, rp) THEN 1 ELSE 0,
           IF PositionCandKept(txs, tys, lp, rp, lbp, ubp, ot) THEN 1 ELSE 0>>
      PairObs == <<e[3], e[4], e[5], e[6]>>
      TabObs  == <<e[7], e[8], e[9]>>
      ImplPairOK ==
         IF both THEN \A k \in 1..4 : PairObs[k] = (IF Meas = "OVERLAP" THEN 1 ELSE IF AE THEN 0 ELSE 1)
         ELSE \E lp \in PrefixTab[n], rp \in PrefixTab[m],
                 lb \in SizeLBTab[n], ub \in SizeUBTab[n],
                 ot \in OverlapTab[n][m] : ModelPair(lp, rp, lb, ub, ot) = PairObs
      ImplTabOK ==
         \/ TabObs[1] = 9
         \/ m = 0      \* an empty probing row never reaches find_candidates in the library
         \/ \E lp \in PrefixTab[n], rp \in PrefixTab[m],
               lb \in SizeLBTab[m], ub \in SizeUBTab[m],
               ot \in OverlapTab[n][m] : ModelTab(lp, rp, lb, ub, ot) = TabObs
  IN
     (* ---- property layer *)
     (IF keep /\ PairObs # <<0, 0, 0, 0>>
      THEN {<<"C04", "filter_pair-dropped-qualifying", e[1], e[2]>>} ELSE {})
     \cup (IF ~both /\ Meas # "OVERLAP" /\ MustDropTab[n][m] /\ e[3] # 1
           THEN {<<"C14", "size-not-tight", e[1], e[2]>>} ELSE {})
     \cup (IF ~both /\ ~shares /\ (e[4] # 1 \/ e[5] # 1)
           THEN {<<"C14", "kept-without-common-token", e[1], e[2]>>} ELSE {})
     \cup (IF both /\ \E k \in 1..4 : PairObs[k] # (IF Meas = "OVERLAP" THEN 1 ELSE IF AE THEN 0 ELSE 1)
           THEN {<<"C09", "empty-pair-filter_pair", e[1], e[2]>>} ELSE {})
     (* ---- table level: to be confirmed through the public API *)
     \cup (IF keep /\ TabObs[1] # 9 /\ TabObs # <<1, 1, 1>>
           THEN {<<"ESC", "table-level-miss", e[1], e[2]>>} ELSE {})
     \cup (IF ~both /\ ~shares /\ TabObs[1] # 9 /\ (TabObs[2] = 1 \/ TabObs[3] = 1)
           THEN {<<"ESC", "table-level-kept-without-common-token", e[1], e[2]>>} ELSE {})
     (* ---- implementation layer *)
     \cup (IF ~ImplPairOK THEN {<<"DRIFT", "filter_pair-differs-from-Filters.tla", e[1], e[2]>>} ELSE {})
     \cup (IF ~ImplTabOK THEN {<<"DRIFT", "find_candidates-differs-from-Filters.tla", e[1], e[2]>>} ELSE {})

Init == i = 0 /\ verdict = {} /\ tab = MkTab
Next == /\ i < Len(Entries)
        /\ i' = i + 1
        /\ verdict' = Judge(Entries[i + 1])
        /\ UNCHANGED tab
Spec == Init /\ [][Next]_vars

(* only failing entries are printed; the final state prints the count *)
Report ==
  /\ (i >= 1 /\ verdict # {}) => PrintT(<<"FAIL", ToJson([bid |-> Batch.bid, idx |-> i, fails |-> verdict])>>)
  /\ (i = Len(Entries)) => PrintT(<<"DONE", ToJson([bid |-> Batch.bid, n |-> i])>>)
=============================================================================
