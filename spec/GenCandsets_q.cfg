SPECIFICATION Spec
CONSTANTS
  MaxC = 3
  MaxLong = 14
  MaxJobs = 7
CHECK_DEADLOCK FALSE
