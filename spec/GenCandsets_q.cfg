SPECIFICATION Spec
CONSTANTS
  MaxC = 3
  MaxLong = 14
  MaxJobs = 7
  MaxWide = 70
  WideJobs = {2,3,4,5,6,7,8,9,10,11,12,13,14,15,16,17,33}
CHECK_DEADLOCK FALSE
