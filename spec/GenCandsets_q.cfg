SPECIFICATION Spec
CONSTANTS
  MaxC = 3
CHECK_DEADLOCK FALSE
