SPECIFICATION Spec
CONSTANTS
  MaxC = 4
  MaxJobs = 3
  Ops = {">=", ">", "<=", "<", "=", "!="}
  MissKeys = {1, 2, 3}
  SimVals = {1, 2, 3}
  Sabotage = "none"
INVARIANT Result
INVARIANT MissingRule
CHECK_DEADLOCK FALSE
