SPECIFICATION Spec
CONSTANTS
  MaxU = 6
  Variant = "repaired"
  Measures = {"JACCARD", "COSINE", "DICE", "OVERLAP"}
INVARIANT Safe
INVARIANT Tight
CHECK_DEADLOCK FALSE
