SPECIFICATION Spec
CONSTANTS
  MaxU = 5
  Variant = "repaired"
  Measures = {"JACCARD", "COSINE", "DICE", "OVERLAP"}
INVARIANT Safe
INVARIANT Tight
CHECK_DEADLOCK FALSE
