SPECIFICATION Spec
CONSTANTS
  MaxC = 4
  MaxLong = 16
  MaxJobs = 9
  MaxWide = 130
  WideJobs = {2,3,4,5,6,7,8,9,10,11,12,13,14,15,16,17,33,40}
CHECK_DEADLOCK FALSE
