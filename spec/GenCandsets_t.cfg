SPECIFICATION Spec
CONSTANTS
  MaxC = 4
CHECK_DEADLOCK FALSE
