SPECIFICATION Spec
CONSTANTS
  MaxC = 4
  MaxLong = 16
  MaxJobs = 9
CHECK_DEADLOCK FALSE
