SPECIFICATION Spec
CONSTANTS
  MaxLen = 4
CHECK_DEADLOCK FALSE
