---- MODULE MC_Bounds_1_3 ----
EXTENDS Integers
VARIABLES
  \* @type: Int;
  n,
  \* @type: Int;
  m,
  \* @type: Int;
  o
P == 1
Q == 3
INSTANCE BoundsLemma
====
