SPECIFICATION Spec
CONSTANTS
  MaxLen = 3
CHECK_DEADLOCK FALSE
