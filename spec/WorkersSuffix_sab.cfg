SPECIFICATION Spec
CONSTANTS
  NTok = 3
  MaxL = 1
  MaxR = 2
  Meas = "JACCARD"
  AllowEmpty = TRUE
  Sabotage = "high-overlap"
INVARIANT Safe
INVARIANT EmptyRule
INVARIANT Once
CHECK_DEADLOCK FALSE
