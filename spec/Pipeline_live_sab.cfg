SPECIFICATION FairSpec
CONSTANTS
  NTok = 2
  MaxL = 1
  MaxR = 2
  MaxJobs = 3
  Meas = "JACCARD"
  Mode = "join"
  Sabotage = "no-restore"
PROPERTY Terminates
PROPERTY EveryChunkWorked
PROPERTY FlagEventuallyRestored
CHECK_DEADLOCK FALSE
