SPECIFICATION Spec
CONSTANTS
  NTok = 2
  MaxL = 2
  MaxR = 3
  MaxJobs = 3
  Meas = "COSINE"
  Mode = "posfilter"
  Sabotage = "none"
INVARIANT JoinResult
INVARIANT FilterResult
INVARIANT IdsOK
INVARIANT FlagRestored
PROPERTY FlagOnlyInside
CHECK_DEADLOCK FALSE
