----------------------------- MODULE SessionInd -----------------------------
(***************************************************************************)
(* The switch / restore discipline of Session.tla for call histories of    *)
(* ANY length: the history variable is dropped, every call of the alphabet *)
(* may be entered whenever the session is idle, and Apalache discharges an *)
(* inductive invariant (Init => IndInv at length 0, IndInv /\ Next =>      *)
(* IndInv' at length 1).  IndInv implies ModesRestored and NoLeak.         *)
(* WrongInv (the mode of the bag tokenizer never changes) is refuted.      *)
(***************************************************************************)
EXTENDS Integers, SessionCalls

CONSTANT
  \* @type: Int;
  NCalls

VARIABLES
  \* @type: Str;
  phase,
  \* @type: Int;
  cur,
  \* @type: Str -> Int;
  mode,
  \* @type: Str -> Int;
  saved

Toks == {"S", "B", "D", "Q"}
InitMode == [k \in Toks |-> IF k \in {"S", "Q"} THEN 1 ELSE 0]

Init == phase = "idle" /\ cur = 1 /\ mode = InitMode /\ saved = InitMode

Enter == /\ phase = "idle"
         /\ \E c \in 1..NCalls : cur' = c /\ phase' = (IF Rejected(c) THEN "restore" ELSE "switch")
         /\ saved' = mode /\ UNCHANGED mode
Switch == /\ phase = "switch"
          /\ mode' = IF CallTok(cur) # "-" /\ CallNeeds(cur) # -1
                     THEN [mode EXCEPT ![CallTok(cur)] = CallNeeds(cur)] ELSE mode
          /\ phase' = "work" /\ UNCHANGED <<cur, saved>>
Work == phase = "work" /\ phase' = "restore" /\ UNCHANGED <<cur, mode, saved>>
Restore == phase = "restore" /\ mode' = saved /\ phase' = "idle" /\ UNCHANGED <<cur, saved>>
Next == Enter \/ Switch \/ Work \/ Restore

TypeOK == /\ phase \in {"idle", "switch", "work", "restore"}
          /\ cur \in 1..NCalls
          /\ mode \in [Toks -> {0, 1}] /\ saved \in [Toks -> {0, 1}]
IndInv == /\ TypeOK
          /\ saved = InitMode
          /\ phase \in {"idle", "switch"} => mode = InitMode
          /\ (phase = "restore" /\ Rejected(cur)) => mode = saved
          /\ phase \in {"switch", "work"} => ~Rejected(cur)
ModesRestored == phase = "idle" => mode = InitMode
NoLeak == (phase = "restore" /\ Rejected(cur)) => mode = saved
Goal == ModesRestored /\ NoLeak
WrongInv == mode["B"] = 0
=============================================================================
