SPECIFICATION Spec
CONSTANTS
  MaxFaults = 1
  FaultShapes = {"normal", "onerow", "norows"}
  FaultDtypes = {"object"}
  FaultFlags = {1}
  FaultThr = {"mid"}
CHECK_DEADLOCK FALSE
