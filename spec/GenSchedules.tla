---------------------------- MODULE GenSchedules ----------------------------
(***************************************************************************)
(* Case space of engine E4: right tables of up to MaxR rows over a four-   *)
(* value domain (missing, no tokens, one token, two tokens).  The harness  *)
(* runs every such table against a fixed left table under every n_jobs     *)
(* value, so that every chunk boundary position, empty chunks and more     *)
(* jobs than rows occur (Pipeline.tla explores the same splits on the      *)
(* specification, with every composition and completion order).            *)
(* Values: 0 missing, 1 empty, 2 one token, 3 two tokens.                  *)
(***************************************************************************)
EXTENDS Integers, Sequences, TLC, Json
CONSTANTS MaxR
VARIABLES rt
Init == /\ rt \in UNION {[1..k -> 0..3] : k \in 0..MaxR}
        /\ PrintT(<<"GEN", ToJson([R |-> rt])>>)
Next == UNCHANGED rt
Spec == Init /\ [][Next]_rt
=============================================================================
