---------------------------- MODULE GenStrTables ----------------------------
(***************************************************************************)
(* Case space of engine E3 for edit distance: every pair of small tables   *)
(* whose join values are missing or a string of length <= MaxLen over      *)
(* NChar characters (characters are 1..NChar; a missing value is <<0>>).   *)
(***************************************************************************)
EXTENDS Integers, Sequences, FiniteSets, TLC, Json

CONSTANTS NChar, MaxLen, MaxL, MaxR

Missing == <<0>>
Strings == UNION {[1..n -> 1..NChar] : n \in 0..MaxLen}
Vals == {Missing} \cup Strings
Tables(n) == UNION {[1..k -> Vals] : k \in 0..n}

VARIABLES lt, rt
vars == <<lt, rt>>

Init == /\ lt \in Tables(MaxL)
        /\ rt \in Tables(MaxR)
        /\ PrintT(<<"GEN", ToJson([L |-> lt, R |-> rt])>>)
Next == UNCHANGED vars
Spec == Init /\ [][Next]_vars
=============================================================================
