------------------------------ MODULE TraceArith ------------------------------
(***************************************************************************)
(* Engine E1: the arithmetic behind the pruning, observed on the real code  *)
(* for every token count up to N and one (measure, threshold) per batch:    *)
(*   prefix[n], lb[n], ub[n], ot[n][m]  values returned by the four bound   *)
(*        functions of filter/filter_utils.py (implementation layer);       *)
(*   sp[n][m]   public SizeFilter.filter_pair on strings with n and m       *)
(*        tokens sharing min(n, m) tokens (1 = dropped);                    *)
(*   wit        public Prefix/Position/Suffix filter_pair on the worst-case *)
(*        witness of size n: x has n tokens, y consists of the k =          *)
(*        MinOverlapAny(n) tokens of x that sort last.                      *)
(* Property layer: C04 (a pair that can / does meet the threshold is not    *)
(* dropped), C14 (SizeFilter drops every pair whose counts put the best     *)
(* attainable similarity more than 1e-4 below the threshold).               *)
(* Implementation layer: the values of the bound functions lie inside the   *)
(* admissibility envelopes of Filters.tla; an inadmissible value is         *)
(* reported as ESC and the harness runs the real joins and filters on a     *)
(* constructed worst-case table for it.                                     *)
(***************************************************************************)
EXTENDS Filters, Json, IOUtils

Batches == JsonDeserialize(IOEnv.TRACE_FILE)

VARIABLES bi, n, verdict         \* batch index, token count, verdict of (b, n)
vars == <<bi, n, verdict>>

Batch == Batches[bi]
Meas == Batch.meas
T == <<Batch.t[1], Batch.t[2]>>
N == Batch.N

(* canonical pair of sets with sizes a, b and overlap o *)
CanonX(a) == 1..a
CanonY(a, b, o) == (a - o + 1)..(a - o + b)

JudgeN(a) ==
  LET pf == Batch.prefix[a + 1]   lb == Batch.lb[a + 1]   ub == Batch.ub[a + 1] IN
  (* --- implementation layer: envelopes of the bound functions *)
  (IF ~PrefixAdmissible(Meas, T, a, pf) THEN {<<"ESC", "prefix-too-short", a, pf>>} ELSE {})
  \cup (IF ~SizeLBAdmissible(Meas, T, a, lb) THEN {<<"ESC", "size-lower-bound-too-high", a, lb>>} ELSE {})
  \cup (IF ~SizeUBAdmissible(Meas, T, a, Min2(ub, BigSize)) THEN {<<"ESC", "size-upper-bound-too-low", a, ub>>} ELSE {})
  \cup {<<"ESC", "required-overlap-too-high", a, b>> :
          b \in {b \in 1..N : a >= 1 /\ ~OverlapAdmissible(Meas, T, a, b, Batch.ot[a][b])}}
  (* --- property layer: SizeFilter.filter_pair over all count pairs *)
  \cup {<<"C04", "size-filter-dropped-attainable", a, b>> :
          b \in {b \in 1..N : a >= 1 /\ Batch.sp[a][b] = 1
                               /\ KeepMust(Meas, T, CanonX(a), CanonY(a, b, Min2(a, b)))}}
  \cup {<<"C14", "size-not-tight", a, b>> :
          b \in {b \in 1..N : a >= 1 /\ Batch.sp[a][b] = 0 /\ MustDropBySize(Meas, T, a, b)}}

(* witnesses: <<size n, k, prefixXY, positionXY, suffixXY, prefixYX, positionYX, suffixYX>> *)
JudgeWit(w) ==
  LET a == w[1]  k == w[2]
      keep == k >= 1 /\ KeepMust(Meas, T, CanonX(a), CanonY(a, k, k))
      dropped == {j \in 3..8 : w[j] = 1}
  IN  IF keep /\ dropped # {}
      THEN {<<"C04", "witness-dropped", a, j>> : j \in dropped} ELSE {}

Init == bi = 1 /\ n = -1 /\ verdict = {}
Step == /\ n < N
        /\ n' = n + 1
        /\ verdict' = JudgeN(n + 1)
                      \cup (IF n + 1 = 0 THEN {} ELSE
                            UNION {JudgeWit(Batch.wit[j]) : j \in {j \in DOMAIN Batch.wit : Batch.wit[j][1] = n + 1}})
        /\ UNCHANGED bi
NextBatch == /\ n = N /\ bi < Len(Batches)
             /\ bi' = bi + 1 /\ n' = -1 /\ verdict' = {}
Next == Step \/ NextBatch
Spec == Init /\ [][Next]_vars

Report ==
  /\ (n >= 0 /\ verdict # {}) => PrintT(<<"FAIL", ToJson([bid |-> Batch.bid, n |-> n, fails |-> verdict])>>)
  /\ (n = N) => PrintT(<<"DONE", ToJson([bid |-> Batch.bid, n |-> n])>>)
=============================================================================
