---------------------------- MODULE TraceWorkersED ----------------------------
(***************************************************************************)
(* Implementation-layer trace validation of one edit-distance worker run   *)
(* (_edit_distance_join_split): the hook events are replayed through the   *)
(* actions of WorkersED.tla; the state after each step is compared with    *)
(* what the code logged (token order over the bags of q-grams, prefix      *)
(* lengths min(q*tau + 1, n), postings, string lengths, ordered probe      *)
(* tokens, candidate set, emitted rows with their distances).  Findings    *)
(* are DRIFT.  A batch holds traces of one (QVal, Padding).                *)
(***************************************************************************)
EXTENDS WorkersED, Json, IOUtils

Traces == JsonDeserialize(IOEnv.TRACE_FILE)
VARIABLES tid, note
tvars == <<tid, note>>
Tr == Traces[tid]

Load(k) == /\ lt' = Traces[k].L /\ rt' = Traces[k].R
           /\ tau' = Traces[k].tau /\ op' = Traces[k].op
           /\ pc' = "order" /\ ord' = <<>> /\ li' = 1 /\ ri' = 1 /\ idx' = <<>> /\ llens' = <<>> /\ out' = {}
TInit == /\ tid = 1 /\ note = {}
         /\ lt = Traces[1].L /\ rt = Traces[1].R /\ tau = Traces[1].tau /\ op = Traces[1].op
         /\ pc = "order" /\ ord = <<>> /\ li = 1 /\ ri = 1 /\ idx = <<>> /\ llens = <<>> /\ out = {}

Add(ok, clause) == IF ok THEN note ELSE note \cup {clause}

OrdMatches(o) == /\ Len(Tr.ord) = Cardinality(DOMAIN o)
                 /\ \A k \in DOMAIN Tr.ord : Tr.ord[k][1] \in DOMAIN o /\ o[Tr.ord[k][1]] = Tr.ord[k][2]
TOrder == GenOrder /\ note' = Add(OrdMatches(ord'), "order") /\ UNCHANGED tid

TBuildRow == /\ pc = "build" /\ li <= Len(lt)
             /\ BuildRowWith(Tr.plens[li])
             /\ note' = Add(Tr.plens[li] = PrefixLen(Len(Grams(lt[li]))), "prefix-length-of-indexed-row")
                        \cup Add(Tr.sizes[li] = Len(Grams(lt[li])), "number-of-q-grams")
             /\ UNCHANGED tid
IdxMatches ==
  /\ Len(Tr.index) = Cardinality(DOMAIN idx)
  /\ \A e \in DOMAIN Tr.index : Tr.index[e][1] \in DOMAIN idx /\ Tr.index[e][2] = idx[Tr.index[e][1]]
TBuildDone == /\ BuildDone
              /\ note' = Add(IdxMatches, "postings") \cup Add(Tr.llens = llens, "string-lengths")
              /\ UNCHANGED tid

TProbe == /\ pc = "probe" /\ ri <= Len(rt)
          /\ LET p == Tr.probes[ri]  toks == OrderedBag(rt[ri], ord) IN
               /\ ProbeRowWith(p.rp)
               /\ note' = Add(p.rtoks = toks, "ordered-probe-tokens")
                          \cup Add(p.rlen = Len(rt[ri]), "probe-length")
                          \cup Add(p.nofc = 1 \/ p.rp = PrefixLen(Len(toks)), "probe-prefix-length")
                          \cup Add({p.cand[k] : k \in DOMAIN p.cand} = (IF DOMAIN idx = {} THEN {} ELSE CandsOf(toks, p.rp)),
                                   "candidates")
          /\ UNCHANGED tid

LoggedOut == {<<Tr.rows[k][1], Tr.rows[k][2], Tr.rows[k][3]>> : k \in DOMAIN Tr.rows}
TFinish == /\ Finish
           /\ note' = Add(Len(Tr.rows) = Cardinality(LoggedOut), "duplicate-rows") \cup Add(LoggedOut = out, "emitted-rows")
           /\ UNCHANGED tid
TNextTrace == /\ pc = "done" /\ tid < Len(Traces) /\ tid' = tid + 1 /\ note' = {} /\ Load(tid + 1)

TNext == TOrder \/ TBuildRow \/ TBuildDone \/ TProbe \/ TFinish \/ TNextTrace
TSpec == TInit /\ [][TNext]_<<vars, tvars>>
Report == pc = "done" => PrintT(<<"VERDICT", ToJson([tid |-> Tr.tid, fails |-> note])>>)
=============================================================================
