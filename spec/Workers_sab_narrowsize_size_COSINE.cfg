SPECIFICATION Spec
CONSTANTS
  NTok = 3
  MaxL = 2
  MaxR = 1
  Meas = "COSINE"
  AllowEmpty = TRUE
  Mode = "size"
  Sabotage = "narrow-size"
INVARIANT TypeOK
INVARIANT Complete
INVARIANT Sound
INVARIANT EmptyRule
INVARIANT SharesToken
INVARIANT IndexOK
CHECK_DEADLOCK FALSE
