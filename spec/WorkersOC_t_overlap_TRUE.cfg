SPECIFICATION Spec
CONSTANTS
  NTok = 3
  MaxL = 2
  MaxR = 2
  Mode = "overlap"
  AllowEmpty = TRUE
  Sabotage = "none"
INVARIANT Exact
CHECK_DEADLOCK FALSE
