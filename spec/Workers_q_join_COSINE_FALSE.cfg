SPECIFICATION Spec
CONSTANTS
  NTok = 3
  MaxL = 2
  MaxR = 1
  Meas = "COSINE"
  AllowEmpty = FALSE
  Mode = "join"
  Sabotage = "none"
INVARIANT TypeOK
INVARIANT Complete
INVARIANT Sound
INVARIANT EmptyRule
INVARIANT SharesToken
INVARIANT IndexOK
CHECK_DEADLOCK FALSE
