------------------------------- MODULE Session -------------------------------
(***************************************************************************)
(* Call histories (C12).  The only state that survives a call of the       *)
(* library is held by the objects the caller passes in: the tokenizers'    *)
(* set/bag mode (joins switch it temporarily) - including the default      *)
(* q-gram tokenizer object shared by all edit_distance_join calls that     *)
(* omit the argument - and the tables.  This module is the abstract        *)
(* session: three tokenizer objects, a call alphabet, and for each call    *)
(* the tokenizer it uses, the mode it needs while running, and whether it  *)
(* is rejected by validation.  A call is three steps (switch, work,        *)
(* restore) so that TLC checks the discipline itself:                      *)
(*   ModesRestored  after every completed call each tokenizer has the mode *)
(*                  it had before the call;                                *)
(*   NoLeak         a rejected call never switches a mode.                 *)
(* Init also enumerates every history up to MaxLen as a GEN record; the    *)
(* harness replays each on the real library and TraceSession.tla judges    *)
(* the recorded steps.                                                     *)
(***************************************************************************)
EXTENDS Integers, Sequences, FiniteSets, TLC, Json, SessionCalls

CONSTANTS NCalls, MaxLen

Toks == {"S", "B", "D", "Q"}    \* set-mode, bag-mode, shared default q-gram tokenizer (bag mode), set-mode q-gram
InitMode == [k \in Toks |-> IF k \in {"S", "Q"} THEN 1 ELSE 0]      \* 1 = return_set

VARIABLES hist, pos, phase, mode, saved
vars == <<hist, pos, phase, mode, saved>>

Histories == UNION {[1..n -> 1..NCalls] : n \in 0..MaxLen}

Init == /\ hist \in Histories
        /\ pos = 1 /\ phase = "idle" /\ mode = InitMode /\ saved = InitMode
        /\ PrintT(<<"GEN", ToJson([h |-> hist])>>)

Cur == hist[pos]
Enter == /\ phase = "idle" /\ pos <= Len(hist)
         /\ saved' = mode
         /\ phase' = IF Rejected(Cur) THEN "restore" ELSE "switch"
         /\ UNCHANGED <<hist, pos, mode>>
Switch == /\ phase = "switch"
          /\ mode' = IF CallTok(Cur) # "-" /\ CallNeeds(Cur) # -1
                     THEN [mode EXCEPT ![CallTok(Cur)] = CallNeeds(Cur)] ELSE mode
          /\ phase' = "work" /\ UNCHANGED <<hist, pos, saved>>
Work == /\ phase = "work" /\ phase' = "restore" /\ UNCHANGED <<hist, pos, mode, saved>>
Restore == /\ phase = "restore"
           /\ mode' = saved
           /\ phase' = "idle" /\ pos' = pos + 1 /\ UNCHANGED <<hist, saved>>
Next == Enter \/ Switch \/ Work \/ Restore
Spec == Init /\ [][Next]_vars
(* liveness: every history is worked off and every switched mode is eventually switched back *)
FairSpec == Spec /\ WF_vars(Next)
HistoryDone == <>(pos > Len(hist) /\ phase = "idle")
ModesEventuallyRestored == [](mode # InitMode => <>(mode = InitMode))

ModesRestored == phase = "idle" => mode = InitMode
NoLeak == (phase = "restore" /\ pos <= Len(hist) /\ Rejected(Cur)) => mode = saved
=============================================================================
