--------------------------- MODULE TraceValidation ---------------------------
(***************************************************************************)
(* Judges the recorded outcome of every case of the validation matrix      *)
(* (C15): a call violating documented preconditions must raise the class   *)
(* of one of them, before doing any work (no tokenize call) and leaving    *)
(* the tables and the tokenizer's mode as they were; a call violating none *)
(* must return (a DataFrame; the filter constructors an object).           *)
(* The order in which the library checks its arguments is not part of the  *)
(* envelope.                                                               *)
(***************************************************************************)
EXTENDS Integers, Sequences, FiniteSets, TLC, Json, IOUtils

TypeErrors == {"ltable_not_df", "rtable_not_df", "candset_not_df", "table_not_df", "tokenizer", "measure"}
Class(f) == IF f \in TypeErrors THEN "TypeError" ELSE "AssertionError"

Traces == JsonDeserialize(IOEnv.TRACE_FILE)
VARIABLES i, verdict
vars == <<i, verdict>>

Judge(T) ==
  LET fs == {T.faults[k] : k \in DOMAIN T.faults}   O == T.obs IN
  IF fs = {}
  THEN (IF O.raised # "" THEN {<<"C15", "valid-call-raised", 0, 0>>} ELSE {})
       \cup (IF O.raised = "" /\ O.fa # O.fb THEN {<<"C12", "flag", 0, 0>>} ELSE {})
       \cup (IF O.same # 1 THEN {<<"C12", "inputs-modified", 0, 0>>} ELSE {})
  ELSE (IF O.raised = "" THEN {<<"C15", "invalid-call-accepted", 0, 0>>}
        ELSE IF O.raised \notin {Class(f) : f \in fs} THEN {<<"C15", "wrong-exception-class", 0, 0>>}
        ELSE {})
       \cup (IF O.fa # O.fb THEN {<<"C15", "tokenizer-mode-changed-by-rejected-call", 0, 0>>} ELSE {})
       \cup (IF O.same # 1 THEN {<<"C15", "inputs-modified-by-rejected-call", 0, 0>>} ELSE {})
       \cup (IF O.tokenized > 0 THEN {<<"C15", "work-done-before-rejection", 0, 0>>} ELSE {})

Init == i = 0 /\ verdict = {}
Next == /\ i < Len(Traces)
        /\ i' = i + 1
        /\ verdict' = Judge(Traces[i + 1])
Spec == Init /\ [][Next]_vars
Report ==
  i >= 1 => PrintT(<<"VERDICT", ToJson([tid |-> Traces[i].tid, fails |-> verdict])>>)
=============================================================================
