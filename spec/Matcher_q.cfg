SPECIFICATION Spec
CONSTANTS
  MaxC = 3
  MaxJobs = 2
  Ops = {">=", "!="}
  MissKeys = {1, 3}
  SimVals = {1, 2}
  Sabotage = "none"
INVARIANT Result
INVARIANT MissingRule
CHECK_DEADLOCK FALSE
