----------------------------- MODULE TraceWorkers -----------------------------
(***************************************************************************)
(* Implementation-layer trace validation of one worker run (set_sim_join,  *)
(* PositionFilter / PrefixFilter / SizeFilter _filter_tables_split): the   *)
(* events recorded by the guarded hooks must be a behaviour of             *)
(* Workers.tla.  The trace specification reuses the actions of Workers     *)
(* (GenOrder, BuildRowWith, BuildDone, ProbeRowWith, Finish), binds their  *)
(* arithmetic parameters to the logged values and compares the state after *)
(* each step with what the code logged:                                    *)
(*   order     token -> rank of gen_token_ordering_for_tables              *)
(*   build     size cache, prefix lengths (in CodePrefix), postings,       *)
(*             empty records, min / max length                             *)
(*   probe     ordered probe tokens, size window and required overlaps     *)
(*             (in the Code* sets of Filters.tla), probe prefix length,    *)
(*             the candidate structure of find_candidates                  *)
(*   finish    the rows the worker emitted                                 *)
(* The verdict is total: a mismatch is recorded (first failing clause per  *)
(* step) and the run continues from the specification's own next state.    *)
(* All findings of this layer are DRIFT (exit 0): the property-level       *)
(* verdict on the same execution comes from TraceAPI.tla.                  *)
(* A batch holds traces of one (Meas, Mode, AllowEmpty), which are cfg     *)
(* constants; the traces are validated one after the other in a single     *)
(* behaviour.                                                              *)
(***************************************************************************)
EXTENDS Workers, Json, IOUtils

Traces == JsonDeserialize(IOEnv.TRACE_FILE)

VARIABLES tid, note
tvars == <<tid, note>>
Tr == Traces[tid]

TabOf(rows) == [k \in 1..Len(rows) |-> SeqToSet(rows[k])]
Load(k) == /\ lt' = TabOf(Traces[k].L) /\ rt' = TabOf(Traces[k].R)
           /\ thr' = <<Traces[k].t[1], Traces[k].t[2]>> /\ op' = Traces[k].op
           /\ pc' = "order" /\ ord' = <<>> /\ li' = 1 /\ ri' = 1
           /\ idx' = <<>> /\ sizes' = <<>> /\ ltoks' = <<>> /\ plens' = <<>> /\ empties' = <<>>
           /\ minlen' = BigSize /\ maxlen' = 0 /\ out' = {}

TInit == /\ tid = 1 /\ note = {}
         /\ lt = TabOf(Traces[1].L) /\ rt = TabOf(Traces[1].R)
         /\ thr = <<Traces[1].t[1], Traces[1].t[2]>> /\ op = Traces[1].op
         /\ pc = "order" /\ ord = <<>> /\ li = 1 /\ ri = 1
         /\ idx = <<>> /\ sizes = <<>> /\ ltoks = <<>> /\ plens = <<>> /\ empties = <<>>
         /\ minlen = BigSize /\ maxlen = 0 /\ out = {}

Add(ok, clause) == IF ok THEN note ELSE note \cup {clause}

(* ---- order *)
OrdMatches(o) == /\ Len(Tr.ord) = Cardinality(DOMAIN o)
                 /\ \A k \in DOMAIN Tr.ord : Tr.ord[k][1] \in DOMAIN o /\ o[Tr.ord[k][1]] = Tr.ord[k][2]
TOrder == /\ GenOrder
          /\ note' = Add(Mode = "size" \/ OrdMatches(ord'), "order")
          /\ UNCHANGED tid

(* ---- build *)
LoggedPlen(k) == IF Mode = "size" THEN 0 ELSE Tr.plens[k]
TBuildRow == /\ pc = "build" /\ li <= Len(lt)
             /\ BuildRowWith(LoggedPlen(li))
             /\ note' = Add(Mode = "size" \/ LoggedPlen(li) \in CodePrefix(Meas, thr, Cardinality(lt[li])),
                            "prefix-length-of-indexed-row")
             /\ UNCHANGED tid
IdxMatches ==
  /\ Len(Tr.index) = Cardinality({k \in DOMAIN idx : Len(idx[k]) > 0})
  /\ \A e \in DOMAIN Tr.index :
        LET key == Tr.index[e][1]  posts == Tr.index[e][2] IN
        /\ key \in DOMAIN idx
        /\ Len(posts) = Len(idx[key])
        /\ \A p \in DOMAIN posts : /\ posts[p][1] = idx[key][p][1]
                                    /\ (Mode = "prefix" \/ posts[p][2] = idx[key][p][2])
TBuildDone == /\ BuildDone
              /\ note' = (IF Mode = "size"
                          THEN Add(Tr.minlen = minlen /\ Tr.maxlen = maxlen
                                   /\ Tr.empties = (IF HandleEmpty THEN empties ELSE <<>>), "size-index")
                          ELSE Add(Tr.sizes = sizes, "size-cache")
                               \cup Add(IdxMatches, "postings")
                               \cup Add(Tr.empties = (IF HandleEmpty THEN empties ELSE <<>>), "empty-records")
                               \cup Add(Mode = "prefix" \/ (Tr.minlen = minlen /\ Tr.maxlen = maxlen), "min-max-length"))
              /\ UNCHANGED tid

(* ---- probe *)
OtOf(tab, xn) == IF \E k \in DOMAIN tab : tab[k][1] = xn
                 THEN tab[CHOOSE k \in DOMAIN tab : tab[k][1] = xn][2] ELSE BigSize
LoggedCand(p, l) == IF \E k \in DOMAIN p.cand : p.cand[k][1] = l
                    THEN p.cand[CHOOSE k \in DOMAIN p.cand : p.cand[k][1] = l][2] ELSE 0
TProbe ==
  /\ pc = "probe" /\ ri <= Len(rt)
  /\ LET p == Tr.probes[ri]
         ytoks == Ordered(rt[ri], ord)   m == Len(ytoks)
         otf(xn) == OtOf(p.ot, xn)
     IN  /\ ProbeRowWith(p.rp, p.lb, p.ub, otf)
         /\ note' =
              IF p.skipped = 1
              THEN Add(HandleEmpty /\ m = 0, "empty-branch")
              ELSE Add(Mode = "size" \/ p.rtoks = ytoks, "ordered-probe-tokens")
                   \cup Add(Mode = "size" \/ p.nofc = 1 \/ p.rp \in CodePrefix(Meas, thr, m), "probe-prefix-length")
                   \cup Add(Mode = "prefix" \/ p.nofc = 1
                              \/ (/\ \E c \in CodeSizeLB(Meas, thr, m) : p.lb \in {c, Max2(c, minlen)}
                                  /\ \E c \in CodeSizeUB(Meas, thr, m) : p.ub \in {c, Min2(c, maxlen)}),
                            "size-window")
                   \cup Add(Mode \in {"prefix", "size"} \/ p.nofc = 1
                              \/ \A k \in DOMAIN p.ot : p.ot[k][2] \in CodeOverlap(Meas, thr, p.ot[k][1], m),
                            "required-overlap")
                   \cup Add(IF Mode \in {"join", "position"}
                            THEN \A l \in 0..(Len(lt) - 1) :
                                    (IF DOMAIN idx = {} THEN 0
                                     ELSE CandOverlap(l, ytoks, p.rp, Max2(p.lb, minlen), Min2(p.ub, maxlen), otf))
                                    = LoggedCand(p, l)
                            ELSE TRUE, "candidate-overlap")
  /\ UNCHANGED tid

(* ---- finish *)
LoggedOut == {<<Tr.rows[k][1], Tr.rows[k][2], Tr.rows[k][3]>> : k \in DOMAIN Tr.rows}
OutComparable == IF Mode = "join" /\ Meas \in RoundedMeasures THEN out
                 ELSE {<<o[1], o[2], IF Mode = "join" /\ o[3] = 10000 THEN 10000 ELSE -1>> : o \in out}
TFinish == /\ Finish
           /\ note' = Add(Len(Tr.rows) = Cardinality(LoggedOut), "duplicate-rows")
                      \cup Add(IF Mode = "join" /\ Meas \in RoundedMeasures
                               THEN (* at an exact rounding tie the spec admits two scores for one pair *)
                                    /\ LoggedOut \subseteq out
                                    /\ {<<o[1], o[2]>> : o \in out} = {<<o[1], o[2]>> : o \in LoggedOut}
                               ELSE {<<o[1], o[2]>> : o \in out} = {<<o[1], o[2]>> : o \in LoggedOut},
                               "emitted-rows")
           /\ UNCHANGED tid

TNextTrace == /\ pc = "done" /\ tid < Len(Traces)
              /\ tid' = tid + 1 /\ note' = {}
              /\ Load(tid + 1)

TNext == TOrder \/ TBuildRow \/ TBuildDone \/ TProbe \/ TFinish \/ TNextTrace
TSpec == TInit /\ [][TNext]_<<vars, tvars>>

Report == pc = "done" => PrintT(<<"VERDICT", ToJson([tid |-> Tr.tid, fails |-> note])>>)
=============================================================================
