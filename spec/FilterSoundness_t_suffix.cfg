SPECIFICATION Spec
CONSTANTS
  MaxU = 11
  Variant = "repaired"
  Measures = {"JACCARD", "COSINE", "DICE", "OVERLAP"}
INVARIANT SuffixSafe
CHECK_DEADLOCK FALSE
