SPECIFICATION Spec
CONSTANTS
  MaxU = 8
  Variant = "asis"
  Measures = {"JACCARD", "COSINE", "DICE", "OVERLAP"}
INVARIANT Safe
INVARIANT Tight
CHECK_DEADLOCK FALSE
