------------------------------ MODULE Validation ------------------------------
(***************************************************************************)
(* Argument validation (C15): the entry points, the documented             *)
(* preconditions each of them has, the exception class of each violated    *)
(* precondition, and the contexts (otherwise valid arguments) in which a   *)
(* call is made.  Init enumerates the matrix                               *)
(*      entry point x set of violated preconditions x context              *)
(* and prints one GEN record per case; TraceValidation.tla judges the      *)
(* recorded outcome of each case on the real library.                      *)
(***************************************************************************)
EXTENDS Integers, Sequences, FiniteSets, TLC, Json

CONSTANTS MaxFaults,       \* 0..MaxFaults violated preconditions per call
          FaultShapes,     \* table shapes used for rejected calls
          FaultDtypes, FaultFlags, FaultThr

Joins == {"jaccard_join", "cosine_join", "dice_join", "overlap_coefficient_join",
          "overlap_join", "edit_distance_join"}
Ctors == {"SizeFilter", "PrefixFilter", "PositionFilter", "SuffixFilter", "OverlapFilter"}
FTabs == {"SizeFilter.filter_tables", "PrefixFilter.filter_tables", "PositionFilter.filter_tables",
          "SuffixFilter.filter_tables", "OverlapFilter.filter_tables"}
Entries == Joins \cup Ctors \cup FTabs \cup {"filter_candset", "apply_matcher", "profile"}

TableFaults == {"ltable_not_df", "rtable_not_df", "l_key_attr", "r_key_attr", "l_attr", "r_attr",
                "l_numeric", "r_numeric", "l_out", "r_out",
                "l_key_dup", "l_key_nan", "r_key_dup", "r_key_nan"}
CandFaults == {"candset_not_df", "cand_l_key", "cand_r_key"}

(* documented preconditions of each entry point *)
Faults(e) ==
  IF e \in Joins
  THEN (TableFaults \cup {"tokenizer", "threshold_low", "op"})
       \cup (IF e \in {"overlap_join", "edit_distance_join"} THEN {} ELSE {"threshold_high"})
       \cup (IF e = "edit_distance_join" THEN {"not_qgram"} ELSE {})
  ELSE IF e = "OverlapFilter" THEN {"tokenizer", "threshold_low", "op"}
  ELSE IF e \in Ctors THEN {"tokenizer", "measure", "threshold_low", "threshold_high", "not_qgram"}
  ELSE IF e \in FTabs THEN TableFaults
  ELSE IF e = "filter_candset" THEN (TableFaults \ {"l_out", "r_out"}) \cup CandFaults
  ELSE IF e = "apply_matcher"
       THEN (TableFaults \ {"l_numeric", "r_numeric"}) \cup CandFaults \cup {"tokenizer", "op"}
  ELSE {"table_not_df", "profile_attr"}

TypeErrors == {"ltable_not_df", "rtable_not_df", "candset_not_df", "table_not_df", "tokenizer", "measure"}
Class(f) == IF f \in TypeErrors THEN "TypeError" ELSE "AssertionError"

(* faults that cannot be combined in one call (same argument), or that need a shape *)
Exclusive == {{"threshold_low", "threshold_high"}, {"tokenizer", "not_qgram"},
              {"ltable_not_df", "l_key_attr"}, {"ltable_not_df", "l_attr"}, {"ltable_not_df", "l_numeric"},
              {"ltable_not_df", "l_out"}, {"ltable_not_df", "l_key_dup"}, {"ltable_not_df", "l_key_nan"},
              {"rtable_not_df", "r_key_attr"}, {"rtable_not_df", "r_attr"}, {"rtable_not_df", "r_numeric"},
              {"rtable_not_df", "r_out"}, {"rtable_not_df", "r_key_dup"}, {"rtable_not_df", "r_key_nan"},
              {"l_key_attr", "l_key_dup"}, {"l_key_attr", "l_key_nan"}, {"l_key_dup", "l_key_nan"},
              {"r_key_attr", "r_key_dup"}, {"r_key_attr", "r_key_nan"}, {"r_key_dup", "r_key_nan"},
              {"l_attr", "l_numeric"}, {"r_attr", "r_numeric"},
              {"candset_not_df", "cand_l_key"}, {"candset_not_df", "cand_r_key"},
              {"table_not_df", "profile_attr"}, {"measure", "not_qgram"},
              {"measure", "threshold_low"}, {"measure", "threshold_high"}}
Compatible(fs) == \A x \in Exclusive : ~(x \subseteq fs)

Shapes == {"normal", "norows", "onerow", "allmissing", "allempty"}
ShapeOK(fs, shape) ==
  /\ (fs \cap {"l_key_dup", "r_key_dup"} # {}) => shape \in {"normal", "allmissing", "allempty"}
  /\ (fs \cap {"l_key_nan", "r_key_nan"} # {}) => shape # "norows"

Contexts(shapes, dtypes, flags, thrs) ==
  [tokmode : {0, 1}, shape : shapes, dtype : dtypes, flags : flags, thr : thrs]
ValidCtx == Contexts(Shapes, {"object", "str"}, {0, 1, 2}, {"mid", "edge"})
FaultCtx == Contexts(FaultShapes, FaultDtypes, FaultFlags, FaultThr)

FaultSets(e) == {fs \in SUBSET Faults(e) : Cardinality(fs) <= MaxFaults /\ Compatible(fs)}

VARIABLES entry, faults, ctx
vars == <<entry, faults, ctx>>

Init == /\ entry \in Entries
        /\ faults \in FaultSets(entry)
        /\ ctx \in (IF faults = {} THEN ValidCtx ELSE FaultCtx)
        /\ ShapeOK(faults, ctx.shape)
        /\ PrintT(<<"GEN", ToJson([entry |-> entry, faults |-> faults, ctx |-> ctx])>>)
Next == UNCHANGED vars
Spec == Init /\ [][Next]_vars
=============================================================================
