SPECIFICATION Spec
CONSTANTS
  NChar = 2
  MaxLen = 4
  MaxL = 1
  MaxR = 1
CHECK_DEADLOCK FALSE
