SPECIFICATION Spec
CONSTANTS
  MaxR = 5
CHECK_DEADLOCK FALSE
