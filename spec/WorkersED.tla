------------------------------ MODULE WorkersED ------------------------------
(***************************************************************************)
(* The per-chunk worker of edit_distance_join                              *)
(* (join/edit_distance_join_py.py _edit_distance_join_split), C03:         *)
(*                                                                         *)
(*   GenOrder  token order over the BAGS of q-grams of both tables         *)
(*             (frequency counts repetitions; ties alphabetical)           *)
(*   BuildRow  PrefixIndex.build: ordered q-grams (a bag keeps its         *)
(*             repetitions), prefix of min(q*tau + 1, #q-grams) tokens,    *)
(*             one posting (the row id) per prefix token; string lengths   *)
(*   ProbeRow  ordered q-grams of the right string, union of the postings  *)
(*             of its prefix tokens, length filter |len l - len r| <= tau, *)
(*             Levenshtein verification, comparison operator               *)
(*                                                                         *)
(* Strings are sequences over 1..NChar; the pad characters of the q-gram   *)
(* tokenizer are -2 ('#', prefix) and -1 ('$', suffix), which keeps the    *)
(* alphabetical order of the q-grams ('#' < '$' < letters).                *)
(*                                                                         *)
(* Invariants at "done":                                                   *)
(*   Sound     every output pair satisfies op(Lev, tau) and carries Lev    *)
(*   Complete  every pair that satisfies it AND shares a q-gram is output  *)
(*   Padded    corollary with padding: every qualifying pair with          *)
(*             max(len) >= q*tau - q + 2 is output                         *)
(***************************************************************************)
EXTENDS SSJBase

CONSTANTS NChar, MaxLen, MaxL, MaxR, QVal, Padding, MaxTau,
          Sabotage      \* "none"; "short-prefix" uses q*tau instead of q*tau + 1 (non-vacuity)

Strings == UNION {[1..n -> 1..NChar] : n \in 0..MaxLen}
Tabs(n) == UNION {[1..k -> Strings] : k \in 0..n}

Pad(s) == IF Padding THEN [i \in 1..(QVal - 1) |-> -2] \o s \o [i \in 1..(QVal - 1) |-> -1] ELSE s
Grams(s) == LET p == Pad(s) IN
            IF Len(p) < QVal THEN <<>> ELSE [i \in 1..(Len(p) - QVal + 1) |-> SubSeq(p, i, i + QVal - 1)]

RECURSIVE SeqLess(_, _)
SeqLess(a, b) == IF Len(a) = 0 THEN Len(b) > 0
                 ELSE IF Len(b) = 0 THEN FALSE
                 ELSE IF Head(a) # Head(b) THEN Head(a) < Head(b) ELSE SeqLess(Tail(a), Tail(b))

VARIABLES lt, rt, tau, op, pc, ord, li, ri, idx, llens, out
vars == <<lt, rt, tau, op, pc, ord, li, ri, idx, llens, out>>

AllBags == [k \in 1..(Len(lt) + Len(rt)) |-> IF k <= Len(lt) THEN Grams(lt[k]) ELSE Grams(rt[k - Len(lt)])]
GramSet == UNION {SeqToSet(AllBags[k]) : k \in DOMAIN AllBags}
GFreq(g) == SumSeq([k \in DOMAIN AllBags |-> CountIn(AllBags[k], g)])
GBefore(a, b) == GFreq(a) < GFreq(b) \/ (GFreq(a) = GFreq(b) /\ SeqLess(a, b))
GRank(g) == 1 + Cardinality({h \in GramSet : GBefore(h, g)})

OrderedBag(s, o) == SortAsc([k \in DOMAIN Grams(s) |-> o[Grams(s)[k]]])
PrefixLen(n) == Min2(QVal * tau + (IF Sabotage = "short-prefix" THEN 0 ELSE 1), n)

Init == /\ lt \in Tabs(MaxL) /\ rt \in Tabs(MaxR)
        /\ tau \in 0..MaxTau /\ op \in {"<=", "<", "="}
        /\ pc = "order" /\ ord = <<>> /\ li = 1 /\ ri = 1 /\ idx = <<>> /\ llens = <<>> /\ out = {}

GenOrder == /\ pc = "order"
            /\ ord' = [g \in GramSet |-> GRank(g)]
            /\ pc' = "build"
            /\ UNCHANGED <<lt, rt, tau, op, li, ri, idx, llens, out>>

RECURSIVE AddAll(_, _, _)
AddAll(ix, row, pre) ==
  IF Len(pre) = 0 THEN ix
  ELSE LET k == Head(pre)
           ix2 == [j \in (DOMAIN ix) \cup {k} |-> IF j = k THEN (IF k \in DOMAIN ix THEN Append(ix[k], row) ELSE <<row>>)
                                                   ELSE ix[j]]
       IN  AddAll(ix2, row, Tail(pre))

BuildRowWith(plen) ==
            /\ pc = "build" /\ li <= Len(lt)
            /\ LET toks == OrderedBag(lt[li], ord) IN
                 idx' = AddAll(idx, li - 1, Slice0(toks, 0, plen))
            /\ llens' = Append(llens, Len(lt[li]))
            /\ li' = li + 1
            /\ UNCHANGED <<lt, rt, tau, op, pc, ord, ri, out>>
BuildRow == /\ pc = "build" /\ li <= Len(lt)
            /\ BuildRowWith(PrefixLen(Len(Grams(lt[li]))))
BuildDone == /\ pc = "build" /\ li > Len(lt) /\ pc' = "probe"
             /\ UNCHANGED <<lt, rt, tau, op, ord, li, ri, idx, llens, out>>

CandsOf(toks, rp) == UNION {SeqToSet(idx[k]) : k \in SeqToSet(Slice0(toks, 0, rp)) \cap DOMAIN idx}
ProbeRowWith(rp) ==
  /\ pc = "probe" /\ ri <= Len(rt)
  /\ LET toks == OrderedBag(rt[ri], ord)
         pre == Slice0(toks, 0, rp)
         cands == UNION {SeqToSet(idx[k]) : k \in SeqToSet(pre) \cap DOMAIN idx}
         rlen == Len(rt[ri])
         pass == {l \in cands : rlen - tau <= llens[l + 1] /\ llens[l + 1] <= rlen + tau
                                /\ CmpInt(op, Lev(lt[l + 1], rt[ri]), tau)}
     IN  out' = out \cup {<<l, ri - 1, Lev(lt[l + 1], rt[ri])>> : l \in pass}
  /\ ri' = ri + 1
  /\ UNCHANGED <<lt, rt, tau, op, pc, ord, li, idx, llens>>
ProbeRow == /\ pc = "probe" /\ ri <= Len(rt)
            /\ ProbeRowWith(PrefixLen(Len(Grams(rt[ri]))))
Finish == /\ pc = "probe" /\ ri > Len(rt) /\ pc' = "done"
          /\ UNCHANGED <<lt, rt, tau, op, ord, li, ri, idx, llens, out>>

Next == GenOrder \/ BuildRow \/ BuildDone \/ ProbeRow \/ Finish
Spec == Init /\ [][Next]_vars

OutPairs == {<<o[1], o[2]>> : o \in out}
Share(a, b) == SeqToSet(Grams(a)) \cap SeqToSet(Grams(b)) # {}
Sound == pc = "done" => \A o \in out : LET a == lt[o[1] + 1]  b == rt[o[2] + 1] IN
                                       o[3] = Lev(a, b) /\ CmpInt(op, Lev(a, b), tau)
Complete == pc = "done" =>
  \A l \in 0..(Len(lt) - 1), r \in 0..(Len(rt) - 1) :
     (CmpInt(op, Lev(lt[l + 1], rt[r + 1]), tau) /\ Share(lt[l + 1], rt[r + 1])) => <<l, r>> \in OutPairs
Padded == (pc = "done" /\ Padding) =>
  \A l \in 0..(Len(lt) - 1), r \in 0..(Len(rt) - 1) :
     (CmpInt(op, Lev(lt[l + 1], rt[r + 1]), tau)
      /\ Max2(Len(lt[l + 1]), Len(rt[r + 1])) >= QVal * tau - QVal + 2) => <<l, r>> \in OutPairs
=============================================================================
