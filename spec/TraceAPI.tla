------------------------------- MODULE TraceAPI -------------------------------
(***************************************************************************)
(* Property-layer trace validation of one API call of a join or of a       *)
(* filter's filter_tables: the recorded call (abstracted tables,           *)
(* parameters) and its observable outcome (raised class, columns, _id,     *)
(* rows, tokenizer flag before/after, inputs unchanged) must lie inside     *)
(* the envelope defined by Semantics.  A batch of traces is validated as   *)
(* one behaviour: step i judges trace i.  The verdict is total: it lists   *)
(* every failing clause <<property, clause, left key, right key>> instead  *)
(* of stopping at the first one.                                           *)
(*                                                                         *)
(* Trace format (JSON, see harness/vf/record.py):                          *)
(*   kind "join" | "ftab";  meas;  filt (ftab: SIZE PREFIX POSITION SUFFIX *)
(*   OVERLAP);  op;  t = [p, q];  ae, am, sc in {0,1};  q, pad (q-grams);  *)
(*   pairlevel = 1: the rows are the pairs filter_pair does not drop       *)
(*   (pairs of two token-less values left out by the harness)              *)
(*   lkey rkey lpre rpre lcols rcols lout rout (strings);                  *)
(*   L, R: rows [k |-> key, p |-> present, v |-> tokens or characters,     *)
(*               c |-> cell codes aligned with lcols / rcols];             *)
(*   obs: raised, cols, ids, rows [l, r, s = <<kind, a, b>>, la, ra],      *)
(*        fb, fa (tokenizer return_set before / after), lsame, rsame.      *)
(*   score kinds: 0 no column, 1 NaN, 2 four-decimal integer a, 3 rational *)
(*   a/b, 4 integer a, 9 anything else.                                    *)
(***************************************************************************)
EXTENDS Filters, Json, IOUtils

Traces == JsonDeserialize(IOEnv.TRACE_FILE)

VARIABLES i, verdict
vars == <<i, verdict>>

-----------------------------------------------------------------------------
IsED(T)   == T.meas = "EDIT_DISTANCE"
Thr(T)    == <<T.t[1], T.t[2]>>
TokSet(row) == SeqToSet(row.v)

PosOf(seq, x) == CHOOSE k \in DOMAIN seq : seq[k] = x

(* classification of the pair (left row a, right row b) *)
MissingPair(a, b) == a.p = 0 \/ b.p = 0
EmptyBoth(T, a, b) == ~MissingPair(a, b) /\ ~IsED(T) /\ BothEmpty(TokSet(a), TokSet(b))
EmptyOne(T, a, b)  == ~MissingPair(a, b) /\ ~IsED(T) /\ OneEmpty(TokSet(a), TokSet(b))
NormalPair(T, a, b) == ~MissingPair(a, b) /\ (IsED(T) \/ (TokSet(a) # {} /\ TokSet(b) # {}))

(* C01 / C03 / C04: the pair has to be in the output *)
MustHave(T, a, b) ==
  IF T.kind = "join"
  THEN IF IsED(T) THEN MustED(T.op, Thr(T), a.v, b.v, T.q, T.pad = 1)
       ELSE MustPair(T.meas, T.op, Thr(T), TokSet(a), TokSet(b))
  ELSE (* filter_tables *)
       IF T.filt = "OVERLAP"
       THEN TokSet(a) # {} /\ TokSet(b) # {}
            /\ CmpInt(T.op, Ov(TokSet(a), TokSet(b)) * Thr(T)[2], Thr(T)[1])
       ELSE IF IsED(T) THEN MustED("<=", Thr(T), a.v, b.v, T.q, T.pad = 1)
            ELSE KeepMust(T.meas, Thr(T), TokSet(a), TokSet(b))

(* C02 / C03 / C06 / C14: the pair may be in the output *)
MayHave(T, a, b) ==
  IF T.kind = "join"
  THEN IF IsED(T) THEN MayED(T.op, Thr(T), a.v, b.v)
       ELSE MayPair(T.meas, T.op, Thr(T), TokSet(a), TokSet(b))
  ELSE IF T.filt = "OVERLAP"
       THEN (* exact: C06 *)
            TokSet(a) # {} /\ TokSet(b) # {}
            /\ CmpInt(T.op, Ov(TokSet(a), TokSet(b)) * Thr(T)[2], Thr(T)[1])
       ELSE IF T.filt \in {"PREFIX", "POSITION"}
            THEN (* C14: candidates only through a shared token *)
                 IF IsED(T) THEN ShareQgram(a.v, b.v, T.q, T.pad = 1)
                 ELSE Ov(TokSet(a), TokSet(b)) > 0
            ELSE IF T.filt = "SIZE"
            THEN (* C14: the size filter drops what the token counts alone exclude *)
                 IF IsED(T) THEN Abs(Len(Qgrams(a.v, T.q, T.pad = 1)) - Len(Qgrams(b.v, T.q, T.pad = 1))) <= EDThreshold(Thr(T))
                 ELSE IF T.meas = "OVERLAP" THEN TRUE
                 ELSE ~MustDropBySize(T.meas, Thr(T), Cardinality(TokSet(a)), Cardinality(TokSet(b)))
            ELSE TRUE

ScoreOK(T, a, b, s) ==
  IF T.sc = 0 THEN s[1] = 0
  ELSE IF IsED(T) THEN s[1] = 4 /\ s[2] = Lev(a.v, b.v)
  ELSE LET x == TokSet(a)  y == TokSet(b) IN
       CASE T.meas \in RoundedMeasures -> s[1] = 2 /\ s[2] \in Score4Set(T.meas, x, y)
         [] T.meas = "OVERLAP_COEFFICIENT" ->
              s[1] = 3 /\ s[3] > 0 /\ s[2] * Min2(Cardinality(x), Cardinality(y)) = Ov(x, y) * s[3]
         [] T.meas = "OVERLAP" -> s[1] = 4 /\ s[2] = Ov(x, y)
         [] OTHER -> s[1] = 0

(* score of an admitted empty-empty pair: 1.0 *)
EmptyScoreOK(T, s) ==
  IF T.sc = 0 THEN s[1] = 0
  ELSE \/ s[1] = 2 /\ s[2] = 10000
       \/ s[1] = 3 /\ s[2] = s[3] /\ s[3] > 0
       \/ s[1] = 4 /\ s[2] = 1

ExpectedHeader(T) ==
  <<"_id", T.lpre \o T.lkey, T.rpre \o T.rkey>>
  \o [k \in DOMAIN Dedup(T.lout, T.lkey, {}) |-> T.lpre \o Dedup(T.lout, T.lkey, {})[k]]
  \o [k \in DOMAIN Dedup(T.rout, T.rkey, {}) |-> T.rpre \o Dedup(T.rout, T.rkey, {})[k]]
  \o (IF T.sc = 1 THEN <<"_sim_score">> ELSE <<>>)

ExpectedCells(cols, row, out, key) ==
  LET d == Dedup(out, key, {}) IN [k \in DOMAIN d |-> row.c[PosOf(cols, d[k])]]

HasMissing(T) == (\E a \in DOMAIN T.L : T.L[a].p = 0) \/ (\E b \in DOMAIN T.R : T.R[b].p = 0)

(* property blamed for a missed / spurious ordinary pair *)
PMust(T) == IF T.kind = "join" THEN (IF IsED(T) THEN "C03" ELSE "C01")
            ELSE IF T.filt = "OVERLAP" THEN "C06" ELSE "C04"
PMay(T)  == IF T.kind = "join" THEN (IF IsED(T) THEN "C03" ELSE "C02")
            ELSE IF T.filt = "OVERLAP" THEN "C06" ELSE "C14"

Judge(T) ==
  LET O == T.obs
      LI == DOMAIN T.L   RI == DOMAIN T.R
      LKeys == {T.L[a].k : a \in LI}   RKeys == {T.R[b].k : b \in RI}
      LRow(k) == T.L[CHOOSE a \in LI : T.L[a].k = k]
      RRow(k) == T.R[CHOOSE b \in RI : T.R[b].k = k]
      Rows == O.rows
      RIx == DOMAIN Rows
      ObsPairs == {<<Rows[r].l, Rows[r].r>> : r \in RIx}
      Valid(r) == Rows[r].l \in LKeys /\ Rows[r].r \in RKeys
  IN
  IF O.raised # ""
  THEN {<<"C15", "valid-call-raised", 0, 0>>}
       \cup (IF HasMissing(T) /\ T.am = 1 THEN {<<"C08", "valid-call-raised", 0, 0>>} ELSE {})
       \cup {<<PMust(T), "valid-call-raised", 0, 0>>}
       \cup (IF O.fa # O.fb THEN {<<"C12", "flag-after-raise", 0, 0>>} ELSE {})
  ELSE
     (IF O.cols # ExpectedHeader(T) THEN {<<"C11", "header", 0, 0>>} ELSE {})
     \cup (IF O.ids # [k \in 1..Len(Rows) |-> k - 1] THEN {<<"C10", "ids", 0, 0>>} ELSE {})
     \cup (IF O.fa # O.fb THEN {<<"C12", "flag", 0, 0>>} ELSE {})
     \cup (IF O.lsame # 1 \/ O.rsame # 1 THEN {<<"C12", "inputs-modified", 0, 0>>} ELSE {})
     \cup {<<"C02", "unknown-key", Rows[r].l, Rows[r].r>> : r \in {r \in RIx : ~Valid(r)}}
     \cup {<<(IF MissingPair(LRow(Rows[r].l), RRow(Rows[r].r)) THEN "C08" ELSE PMay(T)),
             "duplicate", Rows[r].l, Rows[r].r>> :
             r \in {r \in RIx : Valid(r) /\ \E r2 \in RIx : r2 # r /\ Rows[r2].l = Rows[r].l
                                                              /\ Rows[r2].r = Rows[r].r}}
     \cup UNION { LET a == LRow(Rows[r].l)  b == RRow(Rows[r].r)  s == Rows[r].s IN
           (IF MissingPair(a, b)
            THEN (IF T.am = 0 THEN {<<"C08", "missing-pair-returned", a.k, b.k>>}
                  ELSE IF (T.sc = 1 /\ s[1] # 1) \/ (T.sc = 0 /\ s[1] # 0)
                       THEN {<<"C08", "missing-pair-score", a.k, b.k>>} ELSE {})
            ELSE IF EmptyBoth(T, a, b)
            THEN (IF ~(EmptyAdmitted(T.meas, T.ae = 1) /\ (T.kind = "join" \/ T.filt # "OVERLAP"))
                  THEN {<<"C09", "empty-pair-returned", a.k, b.k>>}
                  ELSE IF T.kind = "join" /\ ~EmptyScoreOK(T, s)
                       THEN {<<"C09", "empty-pair-score", a.k, b.k>>} ELSE {})
            ELSE IF EmptyOne(T, a, b)
            THEN (IF T.kind = "join" \/ T.filt \in {"OVERLAP", "PREFIX", "POSITION"}
                  THEN {<<(IF T.kind = "join" THEN "C09" ELSE PMay(T)), "one-empty-returned", a.k, b.k>>}
                  ELSE {})
            ELSE (IF ~MayHave(T, a, b) THEN {<<PMay(T), "spurious", a.k, b.k>>}
                  ELSE IF (T.kind = "join" \/ T.filt = "OVERLAP") /\ ~ScoreOK(T, a, b, s)
                       THEN {<<PMay(T), "score", a.k, b.k>>} ELSE {}))
           \cup (IF Rows[r].la # ExpectedCells(T.lcols, a, T.lout, T.lkey)
                    \/ Rows[r].ra # ExpectedCells(T.rcols, b, T.rout, T.rkey)
                 THEN {<<"C11", "cells", a.k, b.k>>} ELSE {})
         : r \in {r \in RIx : Valid(r)} }
     \cup UNION { UNION {
           LET a == T.L[ai]  b == T.R[bi]  in == <<a.k, b.k>> \in ObsPairs IN
           IF in THEN {}
           ELSE IF MissingPair(a, b)
           THEN (IF T.am = 1 THEN {<<"C08", "missing-pair-absent", a.k, b.k>>} ELSE {})
           ELSE IF EmptyBoth(T, a, b)
           THEN (IF EmptyAdmitted(T.meas, T.ae = 1) /\ (T.kind = "join" \/ T.filt # "OVERLAP") /\ T.pairlevel = 0
                 THEN {<<"C09", "empty-pair-absent", a.k, b.k>>} ELSE {})
           ELSE IF NormalPair(T, a, b) /\ MustHave(T, a, b)
           THEN {<<PMust(T), "missed", a.k, b.k>>} ELSE {}
         : bi \in RI } : ai \in LI }

-----------------------------------------------------------------------------
Init == i = 0 /\ verdict = {}
Next == /\ i < Len(Traces)
        /\ i' = i + 1
        /\ verdict' = Judge(Traces[i + 1])
Spec == Init /\ [][Next]_vars

(* one line per trace; evaluated once per state with -workers 1 *)
Report ==
  i >= 1 => PrintT(<<"VERDICT", ToJson([tid |-> Traces[i].tid, fails |-> verdict])>>)
=============================================================================
