SPECIFICATION Spec
CONSTANTS
  NChar = 2
  MaxLen = 2
  MaxL = 2
  MaxR = 2
CHECK_DEADLOCK FALSE
