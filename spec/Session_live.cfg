SPECIFICATION FairSpec
CONSTANTS
  NCalls = 27
  MaxLen = 2
PROPERTY HistoryDone
PROPERTY ModesEventuallyRestored
CHECK_DEADLOCK FALSE
