SPECIFICATION FairSpec
CONSTANTS
  NCalls = 25
  MaxLen = 2
PROPERTY HistoryDone
PROPERTY ModesEventuallyRestored
CHECK_DEADLOCK FALSE
