SPECIFICATION FairSpec
CONSTANTS
  NCalls = 29
  MaxLen = 2
PROPERTY HistoryDone
PROPERTY ModesEventuallyRestored
CHECK_DEADLOCK FALSE
