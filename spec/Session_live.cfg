SPECIFICATION FairSpec
CONSTANTS
  NCalls = 24
  MaxLen = 2
PROPERTY HistoryDone
PROPERTY ModesEventuallyRestored
CHECK_DEADLOCK FALSE
