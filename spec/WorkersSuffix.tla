---------------------------- MODULE WorkersSuffix ----------------------------
(***************************************************************************)
(* The per-chunk worker of SuffixFilter.filter_tables                      *)
(* (filter/suffix_filter.py, _filter_tables_split) as a state machine:     *)
(*                                                                         *)
(*   GenOrder   gen_token_ordering_for_tables over both tables             *)
(*   Pair       one iteration of the nested loop (left row li, right row   *)
(*              ri): order both token sets, empty-pair branch, prefix      *)
(*              lengths (a non-positive one drops the pair), _filter_suffix*)
(*              in its repaired form (Filters.SuffixPairDropR)             *)
(*   LoopDone                                                              *)
(*                                                                         *)
(* There is no index: every pair of the chunk is examined.  As in          *)
(* Workers.tla the arithmetic values (the two prefix lengths, the required *)
(* overlap) are parameters of the action: in model checking they range     *)
(* over the admissibility envelope (ideal value, or relaxed by one), in    *)
(* trace validation (TraceWorkersSuffix.tla) they are bound to the values  *)
(* the code logged.                                                        *)
(*                                                                         *)
(* Invariants (at pc = "done"):                                            *)
(*   Safe       every pair whose exact similarity reaches the threshold is *)
(*              in the output (C04)                                        *)
(*   EmptyRule  a pair of two token-less rows is in the output iff         *)
(*              allow_empty holds and the measure is not OVERLAP; a pair   *)
(*              with exactly one token-less row never is (C09)             *)
(*   Once       no pair is emitted twice (out is a set; the count of       *)
(*              emissions equals its cardinality)                          *)
(***************************************************************************)
EXTENDS Filters

CONSTANTS NTok, MaxL, MaxR, Meas, AllowEmpty,
          Sabotage          \* "none" | "high-overlap" (an inadmissible required overlap: Safe must fail)

Ths == IF Meas = "OVERLAP" THEN {<<1, 1>>, <<2, 1>>, <<3, 1>>}
       ELSE {<<1, 3>>, <<1, 2>>, <<2, 3>>, <<7, 10>>, <<1, 1>>}
HandleEmpty == AllowEmpty /\ Meas # "OVERLAP"
Rows(n) == UNION {[1..k -> SUBSET (1..NTok)] : k \in 0..n}

VARIABLES lt, rt, thr, pc, ord, li, ri, out, emitted
vars == <<lt, rt, thr, pc, ord, li, ri, out, emitted>>

Toks == UNION ({lt[k] : k \in DOMAIN lt} \cup {rt[k] : k \in DOMAIN rt})
Freq == [t \in Toks |-> Cardinality({k \in DOMAIN lt : t \in lt[k]})
                        + Cardinality({k \in DOMAIN rt : t \in rt[k]})]
Ordered(s, o) == SortAsc([j \in 1..Cardinality(s) |-> o[SortSet(s)[j]]])

Init == /\ lt \in Rows(MaxL) /\ rt \in Rows(MaxR) /\ thr \in Ths
        /\ pc = "order" /\ ord = <<>> /\ li = 1 /\ ri = 1 /\ out = {} /\ emitted = 0

GenOrder == /\ pc = "order"
            /\ ord' = [t \in Toks |-> RankIn(Freq, t)]
            /\ pc' = "loop"
            /\ UNCHANGED <<lt, rt, thr, li, ri, out, emitted>>

(* what the iteration does with the pair, given the arithmetic values *)
PairKept(xs, ys, lp, rp, ot) ==
  IF HandleEmpty /\ Len(xs) = 0 /\ Len(ys) = 0 THEN TRUE
  ELSE IF lp <= 0 \/ rp <= 0 THEN FALSE
  ELSE ~SuffixPairDropR(xs, ys, lp, rp, ot)

PairWith(lp, rp, ot) ==
  /\ pc = "loop" /\ li <= Len(lt) /\ ri <= Len(rt)
  /\ LET xs == Ordered(lt[li], ord)  ys == Ordered(rt[ri], ord)
         keep == PairKept(xs, ys, lp, rp, ot) IN
       /\ out' = IF keep THEN out \cup {<<li - 1, ri - 1>>} ELSE out
       /\ emitted' = IF keep THEN emitted + 1 ELSE emitted
  /\ IF ri < Len(rt) THEN ri' = ri + 1 /\ li' = li ELSE ri' = 1 /\ li' = li + 1
  /\ UNCHANGED <<lt, rt, thr, pc, ord>>

PrefixParam(n) == {Min2(n, IdealPrefix(Meas, thr, n) + d) : d \in {0, 1}}
OTParam(n, m) == IF Sabotage = "high-overlap" THEN {IdealOverlap(Meas, thr, n, m) + 1}
                 ELSE {Max2(0, IdealOverlap(Meas, thr, n, m) - d) : d \in {0, 1}}
Pair == /\ pc = "loop" /\ li <= Len(lt) /\ ri <= Len(rt)
        /\ LET n == Cardinality(lt[li])  m == Cardinality(rt[ri]) IN
             \E lp \in PrefixParam(n), rp \in PrefixParam(m), ot \in OTParam(n, m) : PairWith(lp, rp, ot)

LoopDone == /\ pc = "loop" /\ (li > Len(lt) \/ Len(rt) = 0)
            /\ pc' = "done"
            /\ UNCHANGED <<lt, rt, thr, ord, li, ri, out, emitted>>

Next == GenOrder \/ Pair \/ LoopDone
Spec == Init /\ [][Next]_vars
FairSpec == Spec /\ WF_vars(Next)

AllPairs == {<<l, r>> : l \in 0..(Len(lt) - 1), r \in 0..(Len(rt) - 1)}
Safe == pc = "done" => \A p \in AllPairs : KeepMust(Meas, thr, lt[p[1] + 1], rt[p[2] + 1]) => p \in out
EmptyRule == pc = "done" => \A p \in AllPairs :
               LET x == lt[p[1] + 1]  y == rt[p[2] + 1] IN
               /\ (x = {} /\ y = {}) => (p \in out <=> HandleEmpty)
               /\ ((x = {}) # (y = {})) => p \notin out
Once == emitted = Cardinality(out)
Terminates == <>(pc = "done")
=============================================================================
