------------------------------ MODULE GenTables ------------------------------
(***************************************************************************)
(* Case space of engine E3: every pair of small tables whose join values   *)
(* are missing or a subset of NTok tokens.  The initial-state predicate is *)
(* the single definition of that space: TLC enumerates it and prints one   *)
(* GEN record per table pair (run with -workers 1), the harness executes   *)
(* exactly that list on the real library, and spec/Workers.tla model-      *)
(* checks the algorithms over the same initial states.                     *)
(* A missing value is the sentinel set {0} (TLC cannot mix strings and     *)
(* sets in one set).                                                       *)
(***************************************************************************)
EXTENDS Integers, Sequences, FiniteSets, FiniteSetsExt, SequencesExt, TLC, Json

CONSTANTS NTok, MaxL, MaxR

Missing == {0}
Vals == {Missing} \cup SUBSET (1..NTok)
Tables(n) == UNION {[1..k -> Vals] : k \in 0..n}

VARIABLES lt, rt
vars == <<lt, rt>>

AsSeqs(tab) == [k \in DOMAIN tab |-> SetToSortSeq(tab[k], <)]

Init == /\ lt \in Tables(MaxL)
        /\ rt \in Tables(MaxR)
        /\ PrintT(<<"GEN", ToJson([L |-> AsSeqs(lt), R |-> AsSeqs(rt)])>>)
Next == UNCHANGED vars
Spec == Init /\ [][Next]_vars
=============================================================================
