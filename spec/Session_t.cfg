SPECIFICATION Spec
CONSTANTS
  NCalls = 24
  MaxLen = 4
INVARIANT ModesRestored
INVARIANT NoLeak
CHECK_DEADLOCK FALSE
