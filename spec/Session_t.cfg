SPECIFICATION Spec
CONSTANTS
  NCalls = 27
  MaxLen = 4
INVARIANT ModesRestored
INVARIANT NoLeak
CHECK_DEADLOCK FALSE
