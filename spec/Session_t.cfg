SPECIFICATION Spec
CONSTANTS
  NCalls = 29
  MaxLen = 4
INVARIANT ModesRestored
INVARIANT NoLeak
CHECK_DEADLOCK FALSE
