SPECIFICATION Spec
CONSTANTS
  NCalls = 25
  MaxLen = 4
INVARIANT ModesRestored
INVARIANT NoLeak
CHECK_DEADLOCK FALSE
