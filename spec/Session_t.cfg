SPECIFICATION Spec
CONSTANTS
  NCalls = 21
  MaxLen = 4
INVARIANT ModesRestored
INVARIANT NoLeak
CHECK_DEADLOCK FALSE
