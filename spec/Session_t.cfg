SPECIFICATION Spec
CONSTANTS
  NCalls = 18
  MaxLen = 4
INVARIANT ModesRestored
INVARIANT NoLeak
CHECK_DEADLOCK FALSE
