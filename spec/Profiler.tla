------------------------------- MODULE Profiler -------------------------------
(***************************************************************************)
(* profile_table_for_join over run-length encoded columns (C17).  A column *)
(* is described by the multiplicities of its distinct non-missing values   *)
(* (a sequence of positive counts) and the number of missing values; a     *)
(* 30 000-row table is one state.  Small columns are enumerated value by   *)
(* value, large ones as families around the sizes where two-decimal        *)
(* percentages stop distinguishing (one duplicate or one missing value in  *)
(* more than 20 000 rows).                                                 *)
(***************************************************************************)
EXTENDS Integers, Sequences, FiniteSets, FiniteSetsExt, SequencesExt, TLC, Json

CONSTANTS MaxSmall, BigSizes, GridN

RECURSIVE SumSeq(_)
SumSeq(s) == IF Len(s) = 0 THEN 0 ELSE Head(s) + SumSeq(Tail(s))

(* small columns: sequences over values 1..3 and 0 = missing *)
SmallCols == UNION {[1..n -> 0..3] : n \in 1..MaxSmall}
Mult(col) == LET vs == {col[k] : k \in DOMAIN col} \ {0}
             IN  [j \in 1..Cardinality(vs) |->
                    Cardinality({k \in DOMAIN col : col[k] = SetToSortSeq(vs, <)[j]})]
Miss(col) == Cardinality({k \in DOMAIN col : col[k] = 0})
(* run-length description <<multiplicities of repeated values, #singletons, #missing>> of a small column *)
Triple(col) == LET m == Mult(col)
                   reps == SelectSeq(m, LAMBDA c : c > 1)
               IN  <<reps, Len(m) - Len(reps), Miss(col)>>

(* large families <<multiplicities of the repeated values, #singletons, #missing>> *)
BigCols == {<<d, n - SumSeq(d) - m, m>> : d \in {<<>>, <<2>>, <<3>>, <<2, 2>>}, m \in {0, 1, 2, 3}, n \in BigSizes}

(* the (count, rows) grid of the percentages: for every table size n up to GridN a column with s singletons and one *)
(* value repeated n - s times (every number of distinct values), and a column with m missing values and one value  *)
(* in the other rows (every number of missing values) - every quotient k / n with its own rounding to two decimals *)
MidCols == UNION {{<<(IF n - s > 1 THEN <<n - s>> ELSE <<>>), (IF n - s = 1 THEN s + 1 ELSE s), 0>> : s \in 0..(n - 1)}
                    \cup {<<(IF n - m > 1 THEN <<n - m>> ELSE <<>>), (IF n - m = 1 THEN 1 ELSE 0), m>> : m \in 1..(n - 1)}
                  : n \in 1..GridN}
GridCols == MidCols

(* expected statistics *)
Rows(reps, singles, miss) == SumSeq(reps) + singles + miss
Unique(reps, singles, miss) == Len(reps) + singles + (IF miss > 0 THEN 1 ELSE 0)
(* percentage rounded to two decimals as an integer number of hundredths; *)
(* both neighbours at exact ties                                           *)
PctSet(x, n) == LET num == x * 10000  fl == num \div n  rem == num % n IN
                IF 2 * rem > n THEN {fl + 1} ELSE IF 2 * rem < n THEN {fl} ELSE {fl, fl + 1}
IsKey(reps, singles, miss) == Len(reps) = 0 /\ miss = 0
Warns(miss) == miss > 0

VARIABLES kind, col
vars == <<kind, col>>
Init == /\ \/ kind = "small" /\ col \in SmallCols
           \/ kind = "big" /\ col \in BigCols \cup GridCols
        /\ PrintT(<<"GEN", ToJson([kind |-> kind, col |-> col])>>)
Next == UNCHANGED vars
Spec == Init /\ [][Next]_vars
=============================================================================
