SPECIFICATION Spec
INVARIANT Report
CHECK_DEADLOCK FALSE
