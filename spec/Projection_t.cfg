SPECIFICATION Spec
CONSTANTS
  MaxReq = 4
  Sabotage = "none"
INVARIANT CellsRight
INVARIANT HeaderRight
CHECK_DEADLOCK FALSE
