----------------------------- MODULE TraceSession -----------------------------
(***************************************************************************)
(* Judges a recorded call history (C12): at every step the modes of all    *)
(* tokenizer objects after the call equal the modes before it, the tables  *)
(* and candidate set passed in are unchanged, and the outcome (raised      *)
(* class, multiset of result rows) equals the outcome of the same call     *)
(* made in isolation in a fresh interpreter on fresh objects.              *)
(***************************************************************************)
EXTENDS Integers, Sequences, FiniteSets, TLC, Json, IOUtils

Traces == JsonDeserialize(IOEnv.TRACE_FILE)
Iso == JsonDeserialize(IOEnv.ISO_FILE)        \* sequence indexed by call id
VARIABLES i, verdict
vars == <<i, verdict>>

RangeOf(s) == {s[k] : k \in DOMAIN s}
CountOf(s, x) == Cardinality({k \in DOMAIN s : s[k] = x})
SameBag(a, b) ==
  /\ Len(a) = Len(b)
  /\ IF Cardinality(RangeOf(a)) = Len(a) /\ Cardinality(RangeOf(b)) = Len(b)
     THEN RangeOf(a) = RangeOf(b)
     ELSE \A x \in RangeOf(a) \cup RangeOf(b) : CountOf(a, x) = CountOf(b, x)

JudgeStep(T, k) ==
  LET s == T.steps[k]   iso == Iso[s.call] IN
  (IF s.after # s.before
   THEN {<<(IF s.raised = "" THEN "C12" ELSE "C15"), "tokenizer-mode-not-restored", k, s.call>>} ELSE {})
  \cup (IF s.same # 1 THEN {<<"C12", "inputs-modified", k, s.call>>} ELSE {})
  \cup (IF s.raised # iso.raised THEN {<<"C12", "outcome-depends-on-history", k, s.call>>}
        ELSE IF s.raised = "" /\ ~SameBag(s.rows, iso.rows)
             THEN {<<"C12", "result-depends-on-history", k, s.call>>} ELSE {})

Judge(T) == UNION {JudgeStep(T, k) : k \in DOMAIN T.steps}

Init == i = 0 /\ verdict = {}
Next == /\ i < Len(Traces)
        /\ i' = i + 1
        /\ verdict' = Judge(Traces[i + 1])
Spec == Init /\ [][Next]_vars
Report ==
  i >= 1 => PrintT(<<"VERDICT", ToJson([tid |-> Traces[i].tid, fails |-> verdict])>>)
=============================================================================
