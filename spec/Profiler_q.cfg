SPECIFICATION Spec
CONSTANTS
  GridN = 40
  MaxSmall = 4
  BigSizes = {19999, 20000, 20001, 25000, 30000}
CHECK_DEADLOCK FALSE
