---- MODULE MC_Bounds_1_1 ----
EXTENDS Integers
VARIABLES
  \* @type: Int;
  n,
  \* @type: Int;
  m,
  \* @type: Int;
  o
P == 1
Q == 1
INSTANCE BoundsLemma
====
