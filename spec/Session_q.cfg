SPECIFICATION Spec
CONSTANTS
  NCalls = 24
  MaxLen = 3
INVARIANT ModesRestored
INVARIANT NoLeak
CHECK_DEADLOCK FALSE
