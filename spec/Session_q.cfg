SPECIFICATION Spec
CONSTANTS
  NCalls = 25
  MaxLen = 3
INVARIANT ModesRestored
INVARIANT NoLeak
CHECK_DEADLOCK FALSE
