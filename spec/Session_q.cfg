SPECIFICATION Spec
CONSTANTS
  NCalls = 29
  MaxLen = 3
INVARIANT ModesRestored
INVARIANT NoLeak
CHECK_DEADLOCK FALSE
