SPECIFICATION Spec
CONSTANTS
  NCalls = 27
  MaxLen = 3
INVARIANT ModesRestored
INVARIANT NoLeak
CHECK_DEADLOCK FALSE
