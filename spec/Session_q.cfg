SPECIFICATION Spec
CONSTANTS
  NCalls = 21
  MaxLen = 3
INVARIANT ModesRestored
INVARIANT NoLeak
CHECK_DEADLOCK FALSE
