SPECIFICATION Spec
CONSTANTS
  NCalls = 18
  MaxLen = 3
INVARIANT ModesRestored
INVARIANT NoLeak
CHECK_DEADLOCK FALSE
