SPECIFICATION TSpec
CONSTANTS
  MaxLen = 4
INVARIANT Report
CHECK_DEADLOCK FALSE
