------------------------------- MODULE Pipeline -------------------------------
(***************************************************************************)
(* The API-level pipeline shared by the joins and filter_tables:           *)
(*                                                                         *)
(*   Enter -> Validate (Reject | ok) -> FlipFlag -> Project (drop rows     *)
(*   with a missing value) -> ComputeJobs -> Split (contiguous chunks of   *)
(*   the right array) -> WorkerRun(j) in ANY order -> Concat (job order)   *)
(*   -> MissingPairs -> AssignIds -> RestoreFlag -> Return                 *)
(*                                                                         *)
(* Split chooses ANY composition of the right rows into k contiguous       *)
(* chunks (a superset of split_table's rounding rule: empty chunks, all    *)
(* boundary positions), and the workers may complete in any order; each    *)
(* worker recomputes the token order from the whole left array and ITS     *)
(* chunk only, as the code does.  The worker itself is the function form   *)
(* of Workers.tla (ideal arithmetic), folded into one step.                *)
(*                                                                         *)
(* Properties (at pc = "returned"):                                        *)
(*   JoinResult    mode "join": the multiset of result pairs equals the    *)
(*                 expected one (every qualifying pair once, admitted      *)
(*                 empty pairs, missing pairs iff allow_missing) whatever  *)
(*                 the chunking and completion order   (C01 C02 C08 C09 C10)*)
(*   FilterResult  mode "posfilter": every KeepMust pair is present, no    *)
(*                 pair twice, every kept pair shares a token (C04 C10 C14)*)
(*   IdsOK         _id = 0..n-1                                     (C10)  *)
(*   FlagRestored  the tokenizer flag equals its value at entry     (C12)  *)
(*   FlagOnlyInside (action property) the flag changes only in FlipFlag /  *)
(*                 RestoreFlag, never in a rejected call            (C15)  *)
(***************************************************************************)
EXTENDS Filters

CONSTANTS NTok, MaxL, MaxR, MaxJobs, Meas, Mode,
          Sabotage     \* "none"; "lose-boundary" / "no-restore" show that the invariants are not vacuous

Missing == {0}
Vals == {Missing} \cup SUBSET (1..NTok)
Tables(n) == UNION {[1..k -> Vals] : k \in 0..n}
Ths == IF Meas = "OVERLAP" THEN {<<1, 1>>, <<2, 1>>} ELSE {<<1, 2>>, <<2, 3>>, <<1, 1>>}

VARIABLES lt, rt, thr, ae, am, valid,    \* the call (constant during a run)
          flag0, flag,                  \* tokenizer return_set at entry / now
          pc, larr, rarr,               \* projected arrays: sequences of <<row id, token set>>
          njobs, chunks, wres, result, ids
vars == <<lt, rt, thr, ae, am, valid, flag0, flag, pc, larr, rarr, njobs, chunks, wres, result, ids>>
callvars == <<lt, rt, thr, ae, am, valid, flag0>>

Init == /\ lt \in Tables(MaxL) /\ rt \in Tables(MaxR)
        /\ thr \in Ths /\ ae \in BOOLEAN /\ am \in BOOLEAN /\ valid \in BOOLEAN
        /\ flag0 \in BOOLEAN /\ flag = flag0
        /\ pc = "enter" /\ larr = <<>> /\ rarr = <<>> /\ njobs = 0
        /\ chunks = <<>> /\ wres = <<>> /\ result = <<>> /\ ids = <<>>

Validate == /\ pc = "enter"
            /\ pc' = IF valid THEN "validated" ELSE "rejected"
            /\ UNCHANGED <<callvars, flag, larr, rarr, njobs, chunks, wres, result, ids>>

FlipFlag == /\ pc = "validated"
            /\ flag' = TRUE                       \* set measures run in set mode
            /\ pc' = "flipped"
            /\ UNCHANGED <<callvars, larr, rarr, njobs, chunks, wres, result, ids>>

Present(tab) == SelectSeq([k \in DOMAIN tab |-> <<k, tab[k]>>], LAMBDA e : e[2] # Missing)
Project == /\ pc = "flipped"
           /\ larr' = Present(lt) /\ rarr' = Present(rt)
           /\ pc' = "projected"
           /\ UNCHANGED <<callvars, flag, njobs, chunks, wres, result, ids>>

ComputeJobs == /\ pc = "projected"
               /\ \E nj \in 1..MaxJobs : njobs' = Min2(nj, Len(rarr))
               /\ pc' = "split"
               /\ UNCHANGED <<callvars, flag, larr, rarr, chunks, wres, result, ids>>

Cuts(n, k) == {c \in [0..k -> 0..n] : c[0] = 0 /\ c[k] = n /\ \A j \in 1..k : c[j - 1] <= c[j]}
Split == /\ pc = "split"
         /\ IF njobs <= 1 THEN chunks' = <<rarr>>
            ELSE \E c \in Cuts(Len(rarr), njobs) :
                    chunks' = [j \in 1..njobs |-> SubSeq(rarr, c[j - 1] + 1 + (IF Sabotage = "lose-boundary" /\ j > 1 THEN 1 ELSE 0), c[j])]
         /\ wres' = [j \in DOMAIN chunks' |-> [done |-> FALSE, rows |-> <<>>]]
         /\ pc' = "work"
         /\ UNCHANGED <<callvars, flag, larr, rarr, njobs, result, ids>>

(* ---- the worker, folded: output pairs <<left row id, right row id>> of one chunk ---- *)
ChunkRows(chunk) ==
  LET toks == UNION ({larr[k][2] : k \in DOMAIN larr} \cup {chunk[k][2] : k \in DOMAIN chunk})
      freq == [t \in toks |-> Cardinality({k \in DOMAIN larr : t \in larr[k][2]})
                              + Cardinality({k \in DOMAIN chunk : t \in chunk[k][2]})]
      Ord(s) == SortAsc([j \in 1..Cardinality(s) |-> RankIn(freq, SortSet(s)[j])])
      Kept(x, y) ==
        LET n == Cardinality(x)  m == Cardinality(y) IN
        IF x = {} /\ y = {} THEN ae /\ Meas # "OVERLAP"
        ELSE IF y = {} \/ x = {} THEN FALSE
        ELSE /\ PositionCandKept(Ord(x), Ord(y), IdealPrefix(Meas, thr, n), IdealPrefix(Meas, thr, m),
                                 IdealSizeLB(Meas, thr, m), IdealSizeUB(Meas, thr, m),
                                 IdealOverlap(Meas, thr, n, m))
             /\ (Mode = "join" => RawSat(Meas, ">=", thr, x, y))
      pairs == [r \in DOMAIN chunk |->
                  SelectSeq([l \in DOMAIN larr |-> <<larr[l][1], chunk[r][1], Kept(larr[l][2], chunk[r][2])>>],
                            LAMBDA e : e[3])]
      RECURSIVE Flat(_)
      Flat(r) == IF r > Len(chunk) THEN <<>> ELSE pairs[r] \o Flat(r + 1)
  IN  [k \in DOMAIN Flat(1) |-> <<Flat(1)[k][1], Flat(1)[k][2]>>]

WorkerRun(j) == /\ pc = "work" /\ j \in DOMAIN wres /\ ~wres[j].done
                /\ wres' = [wres EXCEPT ![j] = [done |-> TRUE, rows |-> ChunkRows(chunks[j])]]
                /\ UNCHANGED <<callvars, flag, pc, larr, rarr, njobs, chunks, result, ids>>

RECURSIVE ConcatAll(_, _)
ConcatAll(w, j) == IF j > Len(w) THEN <<>> ELSE w[j].rows \o ConcatAll(w, j + 1)
Concat == /\ pc = "work" /\ \A j \in DOMAIN wres : wres[j].done
          /\ result' = ConcatAll(wres, 1)
          /\ pc' = "concat"
          /\ UNCHANGED <<callvars, flag, larr, rarr, njobs, chunks, wres, ids>>

(* get_pairs_with_missing_value: left-missing x all right, then right-missing x left-present *)
MissingRows ==
  LET lm == SelectSeq([k \in DOMAIN lt |-> k], LAMBDA k : lt[k] = Missing)
      lp == SelectSeq([k \in DOMAIN lt |-> k], LAMBDA k : lt[k] # Missing)
      rm == SelectSeq([k \in DOMAIN rt |-> k], LAMBDA k : rt[k] = Missing)
      RECURSIVE Cross(_, _, _)
      Cross(a, b, i) == IF i > Len(a) THEN <<>> ELSE [k \in DOMAIN b |-> <<a[i], b[k]>>] \o Cross(a, b, i + 1)
      second == Cross(rm, lp, 1)
  IN  Cross(lm, [k \in DOMAIN rt |-> k], 1) \o [k \in DOMAIN second |-> <<second[k][2], second[k][1]>>]
MissingPairs == /\ pc = "concat"
                /\ result' = IF am THEN result \o MissingRows ELSE result
                /\ pc' = "missing"
                /\ UNCHANGED <<callvars, flag, larr, rarr, njobs, chunks, wres, ids>>

AssignIds == /\ pc = "missing"
             /\ ids' = [k \in DOMAIN result |-> k - 1]
             /\ pc' = "ids"
             /\ UNCHANGED <<callvars, flag, larr, rarr, njobs, chunks, wres, result>>

RestoreFlag == /\ pc = "ids"
               /\ flag' = (IF Sabotage = "no-restore" THEN flag ELSE flag0)
               /\ pc' = "returned"
               /\ UNCHANGED <<callvars, larr, rarr, njobs, chunks, wres, result, ids>>

Next == Validate \/ FlipFlag \/ Project \/ ComputeJobs \/ Split \/ (\E j \in 1..MaxJobs : WorkerRun(j))
        \/ Concat \/ MissingPairs \/ AssignIds \/ RestoreFlag
Spec == Init /\ [][Next]_vars

(* liveness: under weak fairness of the call's own steps every call ends (returned or rejected), every chunk *)
(* is eventually worked on, and a switched tokenizer flag is eventually switched back                        *)
FairSpec == Spec /\ WF_vars(Next)
Terminates == <>(pc \in {"returned", "rejected"})
EveryChunkWorked == [](pc = "work" => <>(\A j \in DOMAIN wres : wres[j].done))
FlagEventuallyRestored == [](flag # flag0 => <>(flag = flag0))

-----------------------------------------------------------------------------
ResSet == {result[k] : k \in DOMAIN result}
NoDup == Cardinality(ResSet) = Len(result)
AllPairs == {<<l, r>> : l \in DOMAIN lt, r \in DOMAIN rt}
IsMissing(p) == lt[p[1]] = Missing \/ rt[p[2]] = Missing
ExpectedJoin ==
  {p \in AllPairs :
     IF IsMissing(p) THEN am
     ELSE LET x == lt[p[1]]  y == rt[p[2]] IN
          IF x = {} /\ y = {} THEN ae /\ Meas # "OVERLAP"
          ELSE x # {} /\ y # {} /\ RawSat(Meas, ">=", thr, x, y)}

JoinResult == (pc = "returned" /\ Mode = "join") => (ResSet = ExpectedJoin /\ NoDup)
FilterResult ==
  (pc = "returned" /\ Mode = "posfilter") =>
     /\ NoDup
     /\ \A p \in AllPairs :
           LET x == lt[p[1]]  y == rt[p[2]] IN
           /\ (IsMissing(p) => ((p \in ResSet) <=> am))
           /\ (~IsMissing(p) /\ KeepMust(Meas, thr, x, y)) => p \in ResSet
           /\ (~IsMissing(p) /\ p \in ResSet) => ((x = {} /\ y = {}) \/ x \cap y # {})
IdsOK == pc = "returned" => ids = [k \in DOMAIN result |-> k - 1]
FlagRestored == pc \in {"returned", "rejected"} => flag = flag0
FlagOnlyInside == [][flag' # flag => (pc \in {"validated", "ids"})]_vars
=============================================================================
