SPECIFICATION Spec
CONSTANTS
  NChar = 2
  MaxLen = 3
  MaxL = 2
  MaxR = 1
  QVal = 2
  Padding = FALSE
  MaxTau = 3
  Sabotage = "none"
INVARIANT Sound
INVARIANT Complete
INVARIANT Padded
CHECK_DEADLOCK FALSE
