SPECIFICATION Spec
CONSTANTS
  MaxU = 8
  Variant = "asis"
  Measures = {"JACCARD", "COSINE", "DICE", "OVERLAP"}
INVARIANT SuffixSafe
CHECK_DEADLOCK FALSE
