SPECIFICATION Spec
CONSTANTS
  MaxU = 7
  Variant = "asis"
  Measures = {"JACCARD", "COSINE", "DICE", "OVERLAP"}
INVARIANT SuffixSafe
CHECK_DEADLOCK FALSE
