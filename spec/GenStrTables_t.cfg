SPECIFICATION Spec
CONSTANTS
  NChar = 2
  MaxLen = 3
  MaxL = 2
  MaxR = 1
CHECK_DEADLOCK FALSE
