------------------------------- MODULE Matcher -------------------------------
(***************************************************************************)
(* apply_matcher and filter_candset as a state machine (C05, C06, C08,     *)
(* C10):                                                                   *)
(*                                                                         *)
(*   Enter -> (empty candidate set: return it as is)                       *)
(*         -> DecideCache   tokens are cached iff a tokenizer is given and *)
(*                          |L| + |R| < 2 |C|; the cache maps a KEY to the *)
(*                          tokens of the row with that key, rows with a   *)
(*                          missing value have no entry                    *)
(*         -> Split         any composition of the candidate set into      *)
(*                          contiguous chunks (superset of split_table)    *)
(*         -> RunChunk(j)   in any order; per row: look the two rows up by *)
(*                          key, missing short-circuit, tokens from the    *)
(*                          cache or by tokenizing, similarity, compare    *)
(*         -> Concat        in chunk order                                 *)
(*                                                                         *)
(* The similarity of a pair of present values is an uninterpreted table    *)
(* sim[l][r] in {1, 2, 3} (below / at / above the threshold 2), so that    *)
(* all six operators are exercised at the boundary.                        *)
(*                                                                         *)
(* Result == at "returned" the result is exactly the subsequence of the    *)
(* candidate set (order, _id) of the rows that satisfy the predicate, for  *)
(* every chunking, completion order and both outcomes of the cache switch. *)
(***************************************************************************)
EXTENDS Integers, Sequences, FiniteSets, TLC

CONSTANTS MaxC, MaxJobs, Ops, MissKeys, SimVals,
          Sabotage      \* "none"; "zip-misaligned" builds the token cache from misaligned keys (non-vacuity)

LKeys == {1, 2}
RKeys == {3, 4}
Pairs == {<<l, r>> : l \in LKeys, r \in RKeys}
Inj(n) == {s \in [1..n -> Pairs] : \A a, b \in 1..n : a # b => s[a] # s[b]}

VARIABLES cand,            \* sequence of <<_id, l key, r key>>
          miss,            \* keys whose match value is missing
          sim,             \* similarity class of each pair
          op, am, hastok,  \* operator, allow_missing, tokenizer given
          pc, cache, chunks, done, part, result
vars == <<cand, miss, sim, op, am, hastok, pc, cache, chunks, done, part, result>>
callvars == <<cand, miss, sim, op, am, hastok>>

Cmp(o, x, y) == CASE o = ">=" -> x >= y [] o = ">" -> x > y [] o = "=" -> x = y
                  [] o = "<=" -> x <= y [] o = "<" -> x < y [] o = "!=" -> x # y

Init == /\ \E n \in 0..MaxC : \E s \in Inj(n) : cand = [k \in 1..n |-> <<10 * k + 3, s[k][1], s[k][2]>>]
        /\ miss \in SUBSET MissKeys
        /\ sim \in [Pairs -> SimVals]
        /\ op \in Ops /\ am \in BOOLEAN /\ hastok \in BOOLEAN
        /\ pc = "enter" /\ cache = "undecided" /\ chunks = <<>> /\ done = {} /\ part = <<>> /\ result = <<>>

Enter == /\ pc = "enter"
         /\ IF Len(cand) = 0 THEN pc' = "returned" /\ result' = cand ELSE pc' = "cache" /\ UNCHANGED result
         /\ UNCHANGED <<callvars, cache, chunks, done, part>>

DecideCache == /\ pc = "cache"
               /\ cache' = IF hastok /\ (Cardinality(LKeys) + Cardinality(RKeys) < 2 * Len(cand)) THEN "on" ELSE "off"
               /\ pc' = "split"
               /\ UNCHANGED <<callvars, chunks, done, part, result>>

Cuts(n, k) == {c \in [0..k -> 0..n] : c[0] = 0 /\ c[k] = n /\ \A j \in 1..k : c[j - 1] <= c[j]}
Split == /\ pc = "split"
         /\ \E nj \in 1..MaxJobs :
              LET k == IF nj <= Len(cand) THEN nj ELSE Len(cand) IN
              IF k <= 1 THEN chunks' = <<cand>>
              ELSE \E c \in Cuts(Len(cand), k) : chunks' = [j \in 1..k |-> SubSeq(cand, c[j - 1] + 1, c[j])]
         /\ part' = [j \in DOMAIN chunks' |-> <<>>]
         /\ done' = {}
         /\ pc' = "work"
         /\ UNCHANGED <<callvars, cache, result>>

(* generate_tokens: key -> the row whose tokens are cached (a row is identified by its key). *)
(* The code zips the keys of the rows with a present value with their tokens.                *)
CacheOf(keyseq) ==
  LET nonnull == SelectSeq(keyseq, LAMBDA k : k \notin miss)
      keysUsed == IF Sabotage = "zip-misaligned" THEN SubSeq(keyseq, 1, Len(nonnull)) ELSE nonnull
  IN  [k \in {keysUsed[i] : i \in DOMAIN keysUsed} |-> nonnull[CHOOSE i \in DOMAIN keysUsed : keysUsed[i] = k]]
LCache == CacheOf(<<1, 2>>)
RCache == CacheOf(<<3, 4>>)

(* one candidate row: the output row <<_id, l, r, score>> (score 0 = NaN, -1 = KeyError) or nothing *)
Eval(row) ==
  LET l == row[2]  r == row[3] IN
  IF l \in miss \/ r \in miss
  THEN (IF am THEN <<<<row[1], l, r, 0>>>> ELSE <<>>)
  ELSE (* tokens: from the cache (entries exist exactly for keys with a present value) or tokenized now; *)
       (* both give the tokens of the row with that key, so the similarity is sim[l, r] either way       *)
       LET sl == IF cache = "on" THEN (IF l \in DOMAIN LCache THEN LCache[l] ELSE 0) ELSE l
           sr == IF cache = "on" THEN (IF r \in DOMAIN RCache THEN RCache[r] ELSE 0) ELSE r
       IN  IF sl = 0 \/ sr = 0 THEN <<<<row[1], l, r, -1>>>>
           ELSE IF Cmp(op, sim[<<sl, sr>>], 2) THEN <<<<row[1], l, r, sim[<<sl, sr>>]>>>> ELSE <<>>

RECURSIVE EvalAll(_)
EvalAll(rows) == IF Len(rows) = 0 THEN <<>> ELSE Eval(Head(rows)) \o EvalAll(Tail(rows))

RunChunk(j) == /\ pc = "work" /\ j \in DOMAIN chunks /\ j \notin done
               /\ part' = [part EXCEPT ![j] = EvalAll(chunks[j])]
               /\ done' = done \cup {j}
               /\ UNCHANGED <<callvars, pc, cache, chunks, result>>

RECURSIVE Flat(_, _)
Flat(p, j) == IF j > Len(p) THEN <<>> ELSE p[j] \o Flat(p, j + 1)
Concat == /\ pc = "work" /\ done = DOMAIN chunks
          /\ result' = Flat(part, 1)
          /\ pc' = "returned"
          /\ UNCHANGED <<callvars, cache, chunks, done, part>>

Next == Enter \/ DecideCache \/ Split \/ (\E j \in 1..MaxJobs : RunChunk(j)) \/ Concat
Spec == Init /\ [][Next]_vars

(* the row-wise definition, independent of cache and chunking *)
RECURSIVE Want(_)
Want(rows) ==
  IF Len(rows) = 0 THEN <<>>
  ELSE LET row == Head(rows)  l == row[2]  r == row[3]
           keep == IF l \in miss \/ r \in miss THEN am ELSE Cmp(op, sim[<<l, r>>], 2)
           sc == IF l \in miss \/ r \in miss THEN 0 ELSE sim[<<l, r>>]
       IN  (IF keep THEN <<<<row[1], l, r, sc>>>> ELSE <<>>) \o Want(Tail(rows))
Expected == Want(cand)
Result == pc = "returned" => result = (IF Len(cand) = 0 THEN cand ELSE Expected)
(* C08: missing rows are kept iff allow_missing, with a NaN score *)
MissingRule ==
  pc = "returned" =>
    \A k \in DOMAIN cand :
       (cand[k][2] \in miss \/ cand[k][3] \in miss) =>
          ((\E j \in DOMAIN result : result[j][1] = cand[k][1] /\ result[j][4] = 0) <=> am)
=============================================================================
