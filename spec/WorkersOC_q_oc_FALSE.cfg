SPECIFICATION Spec
CONSTANTS
  NTok = 3
  MaxL = 2
  MaxR = 1
  Mode = "oc"
  AllowEmpty = FALSE
  Sabotage = "none"
INVARIANT Exact
CHECK_DEADLOCK FALSE
