------------------------------ MODULE TraceLaws ------------------------------
(***************************************************************************)
(* Relational laws between recorded results of different calls (C07, C10,  *)
(* C13, C14).  No external oracle: the laws relate runs of the library     *)
(* with each other, so they also apply to large data.                      *)
(*                                                                         *)
(* A result row is  <<l, r, k, a, b, o, n, m, cells...>> :  keys, score    *)
(* <<k, a, b>> (k: 0 none, 1 NaN, 2 four-decimal integer a, 3 rational a/b,*)
(* 4 integer a), and the abstraction of the two join values as counts:     *)
(* overlap o, sizes n, m (-1 when a value is missing).  From the counts    *)
(* TLC decides which rows are outside a law's scope: pairs of two empty    *)
(* sets, and pairs whose exact and rounded scores fall on different sides  *)
(* of a threshold.                                                         *)
(*                                                                         *)
(* law "EQ"        multiset(A) = multiset(B)                               *)
(* law "KEYSUB"    keys(A) subset keys(B)   (Position within Prefix, Size) *)
(* law "TRANSPOSE" B is A with the keys swapped                            *)
(* law "REFINE"    B (threshold t2, stricter) = rows of A (threshold t)    *)
(*                 whose score meets t2                                    *)
(* law "PARTITION" A (>= / <=) = B (> / <) disjoint-union C (=)            *)
(* law "PIPE"      join A = filter_tables-then-apply_matcher B             *)
(* law "SPLIT"     sizes is a contiguous partition of n rows into k chunks *)
(***************************************************************************)
EXTENDS Semantics, Json, IOUtils

Traces == JsonDeserialize(IOEnv.TRACE_FILE)
VARIABLES i, verdict
vars == <<i, verdict>>

RangeOf(s) == {s[k] : k \in DOMAIN s}
CountOf(s, x) == Cardinality({k \in DOMAIN s : s[k] = x})
(* multiset equality; linear-logarithmic when neither side has repeated rows *)
SameBag(a, b) ==
  /\ Len(a) = Len(b)
  /\ IF Cardinality(RangeOf(a)) = Len(a) /\ Cardinality(RangeOf(b)) = Len(b)
     THEN RangeOf(a) = RangeOf(b)
     ELSE \A x \in RangeOf(a) \cup RangeOf(b) : CountOf(a, x) = CountOf(b, x)
Keys(s) == {<<s[k][1], s[k][2]>> : k \in DOMAIN s}

IsMissingRow(r) == r[7] < 0 \/ r[8] < 0
IsEmptyRow(r)   == r[7] = 0 /\ r[8] = 0

(* exact similarity of a row from its counts, compared with threshold t *)
RowRawSat(meas, op, t, r) ==
  LET o == r[6]  n == r[7]  m == r[8] IN
  IF meas = "COSINE" THEN BigCmpOp(op, CosLhs(o, t), CosRhs(n, m, t))
  ELSE IF meas = "EDIT_DISTANCE" THEN CmpInt(op, r[4], t[1] \div t[2])
  ELSE LET s == CASE meas = "JACCARD" -> <<o, n + m - o>>
                  [] meas = "DICE" -> <<2 * o, n + m>>
                  [] meas = "OVERLAP_COEFFICIENT" -> <<o, Min2(n, m)>>
                  [] meas = "OVERLAP" -> <<o, 1>>
       IN  CmpInt(op, s[1] * t[2], t[1] * s[2])
(* the reported score compared with threshold t *)
RowScoreSat(meas, op, t, r) ==
  CASE r[3] = 2 -> CmpInt(op, r[4] * t[2], t[1] * 10000)
    [] r[3] = 3 -> CmpInt(op, r[4] * t[2], t[1] * r[5])
    [] r[3] = 4 -> CmpInt(op, r[4] * t[2], t[1])
    [] OTHER -> FALSE
(* a row without a reported score (out_sim_score = False): the admissible 4-decimal scores follow from the counts *)
RowStraddle(meas, op, t, r) ==
  IF meas \notin RoundedMeasures THEN FALSE
  ELSE LET o == r[6]  n == r[7]  m == r[8]
           S == CASE meas = "JACCARD" -> R4SetDiv(o, n + m - o)
                  [] meas = "DICE"    -> R4SetDiv(2 * o, n + m)
                  [] meas = "COSINE"  -> CosR4Set(o, n, m)
           raw == RowRawSat(meas, op, t, r)
           all == \A sc \in S : CmpInt(op, sc * t[2], t[1] * 10000)
           some == \E sc \in S : CmpInt(op, sc * t[2], t[1] * 10000)
       IN  (raw \/ some) /\ ~(raw /\ all)
(* satisfied according to the reported score, or to the exact similarity when no score is reported *)
RowSat(meas, op, t, r) == IF r[3] = 0 THEN RowRawSat(meas, op, t, r) ELSE RowScoreSat(meas, op, t, r)
(* out of scope for threshold-dependent laws *)
Excluded(meas, op, t, r) ==
  \/ IsMissingRow(r) \/ IsEmptyRow(r)
  \/ (meas # "EDIT_DISTANCE" /\ r[7] > 0 /\ r[8] > 0 /\
        (IF r[3] = 0 THEN RowStraddle(meas, op, t, r)
         ELSE RowRawSat(meas, op, t, r) # RowScoreSat(meas, op, t, r)))
  \/ (meas = "COSINE" /\ BigCmp(CosLhs(r[6], t), CosRhs(r[7], r[8], t)) = 0)

Core(r) == <<r[1], r[2], r[3], r[4], r[5]>>
Filter(s, P(_)) == SelectSeq(s, P)

Judge(T) ==
  LET A == T.A   B == T.B   t == <<T.t[1], T.t[2]>> IN
  CASE T.law = "EQ" ->
         IF SameBag(A, B) THEN {} ELSE {<<T.prop, "results-differ", Len(A), Len(B)>>}
    [] T.law = "KEYSUB" ->
         IF Keys(A) \subseteq Keys(B) THEN {} ELSE {<<T.prop, "not-a-subset", Len(A), Len(B)>>}
    [] T.law = "TRANSPOSE" ->
         LET sw == [k \in DOMAIN A |-> <<A[k][2], A[k][1], A[k][3], A[k][4], A[k][5]>>]
             cb == [k \in DOMAIN B |-> Core(B[k])]
         IN  IF SameBag(sw, cb) THEN {} ELSE {<<T.prop, "transposition", Len(A), Len(B)>>}
    [] T.law = "REFINE" ->
         LET t2 == <<T.t2[1], T.t2[2]>>
             InScope(r) == ~Excluded(T.meas, T.op, t, r) /\ ~Excluded(T.meas, T.op, t2, r)
             sa == Filter(A, LAMBDA r : InScope(r) /\ RowSat(T.meas, T.op, t2, r))
             sb == Filter(B, InScope)
             fa == [k \in DOMAIN sa |-> Core(sa[k])]
             fb == [k \in DOMAIN sb |-> Core(sb[k])]
         IN  IF SameBag(fa, fb) THEN {} ELSE {<<T.prop, "refinement", Len(fa), Len(fb)>>}
    [] T.law = "PARTITION" ->
         LET C == T.C
             opS == IF T.op = ">=" THEN ">" ELSE "<"
             InScope(r) == ~Excluded(T.meas, T.op, t, r) /\ ~Excluded(T.meas, opS, t, r) /\ ~Excluded(T.meas, "=", t, r)
             sa == Filter(A, InScope)   sb == Filter(B, InScope)   sc == Filter(C, InScope)
             ca == [k \in DOMAIN sa |-> Core(sa[k])]
             cb == [k \in DOMAIN sb |-> Core(sb[k])]
             cc == [k \in DOMAIN sc |-> Core(sc[k])]
         IN  (IF SameBag(ca, cb \o cc) THEN {} ELSE {<<T.prop, "operator-partition", Len(ca), Len(cb) + Len(cc)>>})
             \cup (IF Keys(cb) \cap Keys(cc) = {} THEN {} ELSE {<<T.prop, "partition-not-disjoint", 0, 0>>})
    [] T.law = "PIPE" ->
         LET InScope(r) == ~Excluded(T.meas, T.op, t, r)
             ja == Filter(A, InScope)   mb == Filter(B, InScope)
             ca == [k \in DOMAIN ja |-> Core(ja[k])]
             cb == [k \in DOMAIN mb |-> Core(mb[k])]
         IN  IF T.meas = "EDIT_DISTANCE"
             THEN (IF Keys(A) \subseteq Keys(B) THEN {} ELSE {<<T.prop, "join-not-in-pipeline", Len(A), Len(B)>>})
                  \cup (IF \A k \in DOMAIN B : (B[k][6] > 0 /\ ~IsMissingRow(B[k])) => <<B[k][1], B[k][2]>> \in Keys(A)
                        THEN {} ELSE {<<T.prop, "pipeline-pair-sharing-qgram-not-in-join", Len(A), Len(B)>>})
                  \cup (IF RangeOf([k \in DOMAIN A |-> Core(A[k])]) \subseteq RangeOf([k \in DOMAIN B |-> Core(B[k])])
                        THEN {} ELSE {<<T.prop, "scores-differ", 0, 0>>})
             ELSE (IF Keys(ja) = Keys(mb) THEN {} ELSE {<<T.prop, "key-pairs-differ", Len(ja), Len(mb)>>})
                  \cup (IF Keys(ja) = Keys(mb) /\ ~SameBag(ca, cb) THEN {<<T.prop, "scores-differ", 0, 0>>} ELSE {})
    [] T.law = "SPLIT" ->
         (* split_table: chunk i covers rows [b(i-1), b(i)) with b(i) = round(i * n / k); at an exact *)
         (* .5 tie either neighbour is admitted, but both uses of one boundary must agree            *)
         LET Cum(j) == SumSeq(SubSeq(T.sizes, 1, j)) IN
         IF /\ Len(T.sizes) = T.k /\ T.k >= 1
            /\ SumSeq(T.sizes) = T.n
            /\ \A j \in DOMAIN T.sizes : T.sizes[j] >= 0
            /\ \A j \in 1..T.k : Cum(j) \in RSet(j * T.n, T.k)
         THEN {} ELSE {<<"DRIFT", "split-not-the-rounding-partition", T.n, T.k>>}

Init == i = 0 /\ verdict = {}
Next == /\ i < Len(Traces)
        /\ i' = i + 1
        /\ verdict' = Judge(Traces[i + 1])
Spec == Init /\ [][Next]_vars
Report ==
  i >= 1 => PrintT(<<"VERDICT", ToJson([tid |-> Traces[i].tid, fails |-> verdict])>>)
=============================================================================
