SPECIFICATION Spec
CONSTANTS
  NChar = 2
  MaxLen = 3
  MaxL = 1
  MaxR = 1
  QVal = 3
  Padding = TRUE
  MaxTau = 2
  Sabotage = "none"
INVARIANT Sound
INVARIANT Complete
INVARIANT Padded
CHECK_DEADLOCK FALSE
