--------------------------- MODULE FilterSoundness ---------------------------
(***************************************************************************)
(* Exhaustive check of the pruning logic on the specification itself       *)
(* (C04, C14; the candidate-generation half of C01): for every arrangement *)
(* of two token sets whose union has at most MaxU tokens (a word over      *)
(* {0 left only, 1 right only, 2 both}, built letter by letter so that     *)
(* every prefix of every word is a state), every measure, every threshold  *)
(* of the grid and every admissible choice of the arithmetic parameters    *)
(* (ideal value, ideal relaxed by one, maximally relaxed),                 *)
(*   Safe      a pair whose similarity meets the threshold is never        *)
(*             dropped by the Size / Prefix / Position logic, neither      *)
(*             under the order of the word (a table-level order: any       *)
(*             common total order) nor under the pair-level order of       *)
(*             filter_pair (frequency, then id);                           *)
(*   SuffixSafe  the same for the suffix filter (variant "asis" = the      *)
(*             code as transcribed, "repaired" = with the two corrections  *)
(*             described in Filters.tla);                                  *)
(*   Tight     a pair without a common token is dropped by Prefix and      *)
(*             Position, and what Position keeps Prefix and Size keep.     *)
(***************************************************************************)
EXTENDS Filters

CONSTANTS MaxU, Variant, Measures

Ths == {<<1, 2>>, <<1, 3>>, <<2, 3>>, <<3, 4>>, <<4, 5>>, <<3, 5>>, <<5, 7>>, <<1, 4>>, <<7, 10>>,
        <<9, 10>>, <<1, 1>>, <<41, 100>>, <<2, 7>>, <<28, 100>>}
OvThs == {<<1, 1>>, <<2, 1>>, <<3, 1>>, <<4, 1>>}
Grid == {<<m, t>> : m \in Measures \ {"OVERLAP"}, t \in Ths}
        \cup (IF "OVERLAP" \in Measures THEN {<<"OVERLAP", t>> : t \in OvThs} ELSE {})

VARIABLE w
XSet == {k \in DOMAIN w : w[k] \in {0, 2}}
YSet == {k \in DOMAIN w : w[k] \in {1, 2}}

Init == w = <<>>
Next == /\ Len(w) < MaxU
        /\ \E d \in 0..2 : w' = Append(w, d)
Spec == Init /\ [][Next]_w

PairRanks(s, x, y) ==
  LET freq == [k \in x \cup y |-> IF k \in x /\ k \in y THEN 2 ELSE 1]
  IN  SortAsc([j \in 1..Cardinality(s) |-> RankIn(freq, SortSet(s)[j])])

(* admissible parameter choices: ideal, relaxed by one, maximally relaxed *)
PrefixChoices(meas, t, n) == {Min2(n, IdealPrefix(meas, t, n) + d) : d \in {0, 1}} \cup {n}
LBChoices(meas, t, n) == {Max2(0, IdealSizeLB(meas, t, n) - d) : d \in {0, 1}} \cup {0}
UBChoices(meas, t, n) == {Min2(BigSize, IdealSizeUB(meas, t, n) + d) : d \in {0, 1}} \cup {BigSize}
OTChoices(meas, t, n, m) == {Max2(0, IdealOverlap(meas, t, n, m) - d) : d \in {0, 1}} \cup {0}

SafeFor(meas, t) ==
  LET x == XSet  y == YSet  n == Cardinality(x)  m == Cardinality(y)
      txs == SortSet(x)  tys == SortSet(y)
      pxs == PairRanks(x, x, y)  pys == PairRanks(y, x, y)
  IN  KeepMust(meas, t, x, y) =>
        /\ \A lb \in LBChoices(meas, t, n), ub \in UBChoices(meas, t, n) : ~SizeDrop(m, lb, ub)
        /\ \A lp \in PrefixChoices(meas, t, n), rp \in PrefixChoices(meas, t, m) :
              /\ PrefixCandKept(txs, tys, lp, rp)
              /\ ~PrefixDrop(pxs, pys, lp, rp)
              /\ \A ot \in OTChoices(meas, t, n, m) :
                    /\ ~PositionPairDrop(pxs, pys, lp, rp, ot)
                    /\ \A lb \in LBChoices(meas, t, m), ub \in UBChoices(meas, t, m) :
                          PositionCandKept(txs, tys, lp, rp, lb, ub, ot)
Safe == \A g \in Grid : SafeFor(g[1], g[2])

SuffixSafeFor(meas, t) ==
  LET x == XSet  y == YSet  n == Cardinality(x)  m == Cardinality(y)
      txs == SortSet(x)  tys == SortSet(y)
      pxs == PairRanks(x, x, y)  pys == PairRanks(y, x, y)
      Drop(xs, ys, lp, rp, ot) == IF Variant = "asis" THEN SuffixPairDrop(xs, ys, lp, rp, ot)
                                  ELSE SuffixPairDropR(xs, ys, lp, rp, ot)
  IN  KeepMust(meas, t, x, y) =>
        \A lp \in PrefixChoices(meas, t, n), rp \in PrefixChoices(meas, t, m),
           ot \in OTChoices(meas, t, n, m) :
             ~Drop(pxs, pys, lp, rp, ot) /\ ~Drop(txs, tys, lp, rp, ot)
SuffixSafe == \A g \in Grid : SuffixSafeFor(g[1], g[2])

(* C14: with the ideal parameters *)
TightFor(meas, t) ==
  LET x == XSet  y == YSet  n == Cardinality(x)  m == Cardinality(y)
      txs == SortSet(x)  tys == SortSet(y)
      pxs == PairRanks(x, x, y)  pys == PairRanks(y, x, y)
      lp == IdealPrefix(meas, t, n)  rp == IdealPrefix(meas, t, m)
      ot == IdealOverlap(meas, t, n, m)
      lb == IdealSizeLB(meas, t, m)  ub == IdealSizeUB(meas, t, m)
  IN  /\ (x \cap y = {} /\ (n > 0 \/ m > 0)) =>
            /\ PrefixDrop(pxs, pys, lp, rp) /\ PositionPairDrop(pxs, pys, lp, rp, ot)
            /\ ~PrefixCandKept(txs, tys, lp, rp) /\ ~PositionCandKept(txs, tys, lp, rp, lb, ub, ot)
      /\ PositionCandKept(txs, tys, lp, rp, lb, ub, ot) =>
            /\ PrefixCandKept(txs, tys, lp, rp)
            /\ (lb <= n /\ n <= ub)
Tight == \A g \in Grid : TightFor(g[1], g[2])
=============================================================================
