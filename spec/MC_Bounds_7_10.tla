---- MODULE MC_Bounds_7_10 ----
EXTENDS Integers
VARIABLES
  \* @type: Int;
  n,
  \* @type: Int;
  m,
  \* @type: Int;
  o
P == 7
Q == 10
INSTANCE BoundsLemma
====
