---------------------------- MODULE BoundsLemma ----------------------------
(***************************************************************************)
(* The arithmetic behind the size and prefix filters for ALL set sizes     *)
(* (unbounded integers), for a fixed threshold P/Q, discharged by Apalache *)
(* as a one-step invariant (linear integer arithmetic).  JACCARD and DICE. *)
(*  n, m sizes of the two sets, o their overlap.                           *)
(***************************************************************************)
EXTENDS Integers

CONSTANTS
  \* @type: Int;
  P,
  \* @type: Int;
  Q

VARIABLES
  \* @type: Int;
  n,
  \* @type: Int;
  m,
  \* @type: Int;
  o

Init == /\ n \in Int /\ m \in Int /\ o \in Int
        /\ n >= 1 /\ m >= 1 /\ o >= 0 /\ o <= n /\ o <= m
Next == UNCHANGED <<n, m, o>>


JaccardKeep == o * Q >= P * (n + m - o)
DiceKeep == 2 * o * Q >= P * (n + m)

\* Jaccard: a qualifying partner has at least ceil(P n / Q) tokens, at most floor(Q n / P),
\* and the overlap is at least ceil(P n / Q) and at least ceil(P (n + m) / (Q + P))
JaccardLemma ==
  JaccardKeep =>
    /\ m * Q >= P * n            \* m >= P n / Q        (size lower bound)
    /\ m * P <= Q * n            \* m <= Q n / P        (size upper bound)
    /\ o * Q >= P * n            \* o >= P n / Q        (prefix length n - ceil(P n/Q) + 1 suffices)
    /\ o * (Q + P) >= P * (n + m)   \* required overlap
DiceLemma ==
  DiceKeep =>
    /\ m * (2 * Q - P) >= P * n
    /\ m * P <= (2 * Q - P) * n
    /\ o * (2 * Q - P) >= P * n
    /\ o * 2 * Q >= P * (n + m)
Lemma == JaccardLemma /\ DiceLemma
\* deliberately false (non-vacuity): the size lower bound is not strict
WrongLemma == JaccardKeep => m * Q >= P * n + 1
=============================================================================
