--------------------------- MODULE TraceConverter ---------------------------
(***************************************************************************)
(* Judges recorded converter calls against the envelope of Converter.tla.  *)
(* obs: raised; ret = <<kind, cells>> with kind "true" | "series" |        *)
(* "frame" | "other" and cells the returned column as <<label, code>>      *)
(* pairs; after = the column of the object passed in, after the call;      *)
(* others = 1 iff all other columns / the index of the passed frame (and   *)
(* of a returned frame) are as before.  labels = the input index labels.   *)
(***************************************************************************)
EXTENDS Converter, IOUtils

Traces == JsonDeserialize(IOEnv.TRACE_FILE)
VARIABLES i, verdict
tvars == <<i, verdict>>

Cells(labels, codes) == [k \in DOMAIN codes |-> <<labels[k], codes[k]>>]

Judge(T) ==
  LET O == T.obs   ct == T.ctype   v == T.vals   lab == T.labels
      conv == Cells(lab, ConvCol(ct, v))   orig == Cells(lab, OrigCol(ct, v))
      isnum == ct \in Numeric
      Bad(clause) == {<<"C16", clause, 0, 0>>}
  IN
  IF T.inplace = 1 /\ T.rc = 1
  THEN (IF O.raised = "AssertionError" THEN {} ELSE Bad("inplace-with-return_col-not-rejected"))
       \cup (IF O.after # orig THEN Bad("input-modified") ELSE {})
  ELSE IF O.raised # "" THEN
       (IF T.entry = "series" /\ T.inplace = 1 /\ isnum /\ ~Degenerate(v)
        THEN {<<"C16", "series-inplace-numeric-raised", 0, 0>>}
        ELSE Bad("valid-call-raised"))
  ELSE IF O.others # 1 THEN Bad("other-columns-or-index-changed")
  ELSE IF T.entry = "series" THEN
       IF T.inplace = 1
       THEN IF isnum /\ Degenerate(v)
            THEN (* documented exception: an object-typed copy (or True) *)
                 IF O.ret[1] = "true" \/ (O.ret[1] = "series" /\ O.ret[2] = conv) THEN {}
                 ELSE Bad("degenerate-series-result")
            ELSE IF Len(v) = 0
            THEN (IF O.ret[1] = "true" \/ (O.ret[1] = "series" /\ O.ret[2] = conv) THEN {} ELSE Bad("empty-series-result"))
            ELSE (IF O.ret[1] # "true" THEN Bad("inplace-did-not-return-True") ELSE {})
                 \cup (IF O.after # conv THEN Bad("inplace-object-not-converted") ELSE {})
       ELSE (IF O.ret[1] # "series" \/ O.ret[2] # conv THEN Bad("converted-copy-wrong") ELSE {})
            \cup (IF O.after # orig THEN Bad("input-modified") ELSE {})
  ELSE (* dataframe *)
       IF T.inplace = 1
       THEN (IF O.ret[1] # "true" THEN Bad("inplace-did-not-return-True") ELSE {})
            \cup (IF O.after # conv THEN Bad("inplace-object-not-converted") ELSE {})
       ELSE IF T.rc = 1
       THEN (IF O.ret[1] # "series" \/ O.ret[2] # conv THEN Bad("converted-column-wrong") ELSE {})
            \cup (IF O.after # orig THEN Bad("input-modified") ELSE {})
       ELSE (IF O.ret[1] # "frame" \/ O.ret[2] # conv THEN Bad("converted-frame-wrong") ELSE {})
            \cup (IF O.after # orig THEN Bad("input-modified") ELSE {})
            \cup (IF O.aliased = 1 THEN Bad("returned-frame-is-the-input-object") ELSE {})

TInit == i = 0 /\ verdict = {} /\ entry = "" /\ ctype = "" /\ vals = <<>> /\ inplace = 0 /\ rc = 0
TNext == /\ i < Len(Traces)
         /\ i' = i + 1
         /\ verdict' = Judge(Traces[i + 1])
         /\ UNCHANGED vars
TSpec == TInit /\ [][TNext]_<<tvars, vars>>
Report ==
  i >= 1 => PrintT(<<"VERDICT", ToJson([tid |-> Traces[i].tid, fails |-> verdict])>>)
=============================================================================
