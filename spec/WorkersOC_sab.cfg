SPECIFICATION Spec
CONSTANTS
  NTok = 3
  MaxL = 2
  MaxR = 1
  Mode = "overlap"
  AllowEmpty = TRUE
  Sabotage = "skip-row-id"
INVARIANT Exact
CHECK_DEADLOCK FALSE
