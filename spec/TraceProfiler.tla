---------------------------- MODULE TraceProfiler ----------------------------
(***************************************************************************)
(* Judges recorded profile_table_for_join outputs (C17).  Each trace holds *)
(* the profiled columns as run-length descriptions <<reps, singles, miss>> *)
(* and the observed rows: attribute name, unique count and percentage      *)
(* (hundredths), missing count and percentage, comment class (0 none, 1    *)
(* key recommendation, 2 ignored-rows warning with its count and           *)
(* percentage, 9 anything else).                                           *)
(***************************************************************************)
EXTENDS Profiler, IOUtils

Traces == JsonDeserialize(IOEnv.TRACE_FILE)
VARIABLES i, verdict
tvars == <<i, verdict>>

Judge(T) ==
  LET O == T.obs IN
  IF O.raised # "" THEN {<<"C17", "valid-call-raised", 0, 0>>, <<"C15", "valid-call-raised", 0, 0>>}
  ELSE
    (IF O.names # T.attrs THEN {<<"C17", "rows-or-index", 0, 0>>} ELSE {})
    \cup (IF O.header_ok # 1 THEN {<<"C17", "columns", 0, 0>>} ELSE {})
    \cup UNION {
       LET c == IF T.kind = "small" THEN Triple(T.cols[k]) ELSE T.cols[k]   r == O.rows[k]
           reps == c[1]  singles == c[2]  miss == c[3]
           n == Rows(reps, singles, miss)   u == Unique(reps, singles, miss)
       IN  (IF r.unique # u THEN {<<"C17", "unique-count", k, u>>} ELSE {})
           \cup (IF r.upct \notin PctSet(u, n) THEN {<<"C17", "unique-percentage", k, r.upct>>} ELSE {})
           \cup (IF r.missing # miss THEN {<<"C17", "missing-count", k, miss>>} ELSE {})
           \cup (IF r.mpct \notin PctSet(miss, n) THEN {<<"C17", "missing-percentage", k, r.mpct>>} ELSE {})
           \cup (IF IsKey(reps, singles, miss) # (r.comment = 1) THEN {<<"C17", "key-recommendation", k, 0>>} ELSE {})
           \cup (IF Warns(miss) # (r.comment = 2) THEN {<<"C17", "ignored-rows-warning", k, 0>>} ELSE {})
           \cup (IF r.comment = 2 /\ (r.wcount # miss \/ r.wpct \notin PctSet(miss, n))
                 THEN {<<"C17", "warning-figures", k, 0>>} ELSE {})
           \cup (IF r.comment = 9 THEN {<<"C17", "unknown-comment", k, 0>>} ELSE {})
       : k \in (DOMAIN T.cols) \cap (DOMAIN O.rows) }
    \cup (IF O.same # 1 THEN {<<"C12", "inputs-modified", 0, 0>>} ELSE {})

TInit == i = 0 /\ verdict = {} /\ kind = "" /\ col = <<>>
TNext == /\ i < Len(Traces)
         /\ i' = i + 1
         /\ verdict' = Judge(Traces[i + 1])
         /\ UNCHANGED vars
TSpec == TInit /\ [][TNext]_<<tvars, vars>>
Report ==
  i >= 1 => PrintT(<<"VERDICT", ToJson([tid |-> Traces[i].tid, fails |-> verdict])>>)
=============================================================================
