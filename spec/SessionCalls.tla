---------------------------- MODULE SessionCalls ----------------------------
(***************************************************************************)
(* The call alphabet of the abstract session (shared by Session.tla, which *)
(* TLC checks over all histories up to a length bound, and SessionInd.tla, *)
(* whose inductive invariant Apalache discharges for histories of ANY      *)
(* length): tokenizer objects S (set mode), B (bag mode), D (the shared    *)
(* default q-gram tokenizer of edit_distance_join, bag mode), Q (set-mode  *)
(* q-gram tokenizer).                                                      *)
(***************************************************************************)
EXTENDS Integers

(* which tokenizer a call uses ("-" none), the mode it forces (-1 none), rejected? *)
CallTok(c)  == CASE c \in {1, 12, 14, 15, 19, 23, 24} -> "S"
                 [] c \in {2, 3, 4, 5, 6, 9, 10, 13, 18} -> "B"
                 [] c \in {7, 11} -> "D"
                 [] c \in {8, 22, 25, 28, 29} -> "Q"
                 [] OTHER -> "-"
CallNeeds(c) == CASE c \in (1..6) \cup {18, 19, 22, 23, 24, 25} -> 1  [] c \in {7, 8} -> 0  [] OTHER -> -1
Rejected(c) == c \in {9, 10, 11}
=============================================================================
