------------------------------- MODULE SSJBase -------------------------------
(***************************************************************************)
(* Arithmetic and data-structure basis shared by every specification of    *)
(* py_stringsimjoin:                                                       *)
(*   - integer helpers, the six comparison operators of COMP_OP_MAP,       *)
(*   - exact rounding to four decimals (what Python's round(x, 4) does to  *)
(*     a rational, with both neighbours admitted at exact decimal ties),   *)
(*   - BigNat: naturals as little-endian base-10^4 digit sequences.  TLC   *)
(*     integers are 32 bit and overflow is an error, and the cosine        *)
(*     comparisons need products up to about 10^13,                        *)
(*   - token order (frequency, then id), ordered token lists, q-grams and  *)
(*     Levenshtein distance.                                               *)
(* Tokens are natural numbers whose numeric order is the alphabetical      *)
(* order of the token strings they stand for (the harness assigns ids in   *)
(* sorted() order), so the library's alphabetical tie-break is `<'.        *)
(***************************************************************************)
EXTENDS Integers, Sequences, FiniteSets, FiniteSetsExt, SequencesExt, TLC

Min2(a, b) == IF a <= b THEN a ELSE b
Max2(a, b) == IF a >= b THEN a ELSE b
Abs(a)     == IF a >= 0 THEN a ELSE -a
CeilDiv(a, b)  == (a + b - 1) \div b          \* a >= 0, b > 0
FloorDiv(a, b) == a \div b                    \* a >= 0, b > 0

(* COMP_OP_MAP of utils/generic_helper.py *)
CmpInt(op, x, y) ==
  CASE op = ">=" -> x >= y
    [] op = ">"  -> x > y
    [] op = "="  -> x = y
    [] op = "<=" -> x <= y
    [] op = "<"  -> x < y
    [] op = "!=" -> x # y

CompOps == {">=", ">", "=", "<=", "<", "!="}

-----------------------------------------------------------------------------
(* Exact rounding of num/den (den > 0, num >= 0) to an integer: round-half- *)
(* even, as Python 3's round().  RSet admits both neighbours at an exact   *)
(* tie because the library rounds the *double* nearest to num/den, which   *)
(* may lie on either side of the tie.                                      *)
RHalfEven(num, den) ==
  LET fl == num \div den   rem == num % den
  IN  IF 2*rem > den \/ (2*rem = den /\ fl % 2 = 1) THEN fl + 1 ELSE fl

RSet(num, den) ==
  LET fl == num \div den   rem == num % den
  IN  IF 2*rem > den THEN {fl + 1} ELSE IF 2*rem < den THEN {fl} ELSE {fl, fl + 1}

RECURSIVE Gcd2(_, _)
Gcd2(a, b) == IF b = 0 THEN a ELSE Gcd2(b, a % b)
RECURSIVE IsPow2(_)
IsPow2(k) == IF k <= 1 THEN k = 1 ELSE (k % 2 = 0 /\ IsPow2(k \div 2))

(* round(num/den, 4) * 10^4 of a float that carries rounding error: both neighbours at a tie *)
R4(num, den)    == RHalfEven(num * 10000, den)
R4Set(num, den) == RSet(num * 10000, den)
(* round(float(num)/float(den), 4) * 10^4 for small integers num, den: the division is correctly  *)
(* rounded, so if num/den is a dyadic rational (reduced denominator a power of two) the double is *)
(* exact and Python's round() resolves a decimal tie deterministically to the even neighbour;     *)
(* otherwise the double lies on either side of the tie and both neighbours are admitted.          *)
R4SetDiv(num, den) ==
  IF num > 0 /\ IsPow2(den \div Gcd2(num, den)) THEN {RHalfEven(num * 10000, den)}
  ELSE RSet(num * 10000, den)

-----------------------------------------------------------------------------
(* BigNat *)
BB == 10000
RECURSIVE BigFromInt(_)
BigFromInt(n) == IF n = 0 THEN <<>> ELSE <<n % BB>> \o BigFromInt(n \div BB)

BigDig(a, i) == IF i <= Len(a) THEN a[i] ELSE 0

RECURSIVE BigAddC(_, _, _, _)
BigAddC(a, b, i, c) ==
  IF i > Len(a) /\ i > Len(b) THEN (IF c = 0 THEN <<>> ELSE <<c>>)
  ELSE LET s == BigDig(a, i) + BigDig(b, i) + c
       IN  <<s % BB>> \o BigAddC(a, b, i + 1, s \div BB)
BigAdd(a, b) == BigAddC(a, b, 1, 0)

RECURSIVE BigMulSmallC(_, _, _, _)              \* a * d, 0 <= d < BB
BigMulSmallC(a, d, i, c) ==
  IF i > Len(a) THEN (IF c = 0 THEN <<>> ELSE BigFromInt(c))
  ELSE LET p == a[i] * d + c IN <<p % BB>> \o BigMulSmallC(a, d, i + 1, p \div BB)

RECURSIVE BigMulAcc(_, _, _)
BigMulAcc(a, b, i) ==
  IF i > Len(b) THEN <<>>
  ELSE BigAddC([k \in 1..(i - 1) |-> 0] \o BigMulSmallC(a, b[i], 1, 0),
               BigMulAcc(a, b, i + 1), 1, 0)

RECURSIVE BigTrim(_)
BigTrim(a) == IF Len(a) > 0 /\ a[Len(a)] = 0 THEN BigTrim(SubSeq(a, 1, Len(a) - 1)) ELSE a

BigMul(a, b) == BigTrim(BigMulAcc(a, b, 1))

(* -1, 0, 1 for a < b, a = b, a > b (a, b trimmed) *)
RECURSIVE BigCmpFrom(_, _, _)
BigCmpFrom(a, b, i) ==
  IF i = 0 THEN 0
  ELSE IF a[i] < b[i] THEN -1 ELSE IF a[i] > b[i] THEN 1 ELSE BigCmpFrom(a, b, i - 1)
BigCmp(a0, b0) ==
  LET a == BigTrim(a0)  b == BigTrim(b0)
  IN  IF Len(a) < Len(b) THEN -1 ELSE IF Len(a) > Len(b) THEN 1
      ELSE BigCmpFrom(a, b, Len(a))

(* product of a sequence of small naturals (each < 2^31, limb products are *)
(* formed digit by digit so nothing overflows)                             *)
RECURSIVE BigProd(_)
BigProd(s) == IF Len(s) = 0 THEN <<1>> ELSE BigMul(BigFromInt(Head(s)), BigProd(Tail(s)))

BigCmpOp(op, a, b) == CmpInt(op, BigCmp(a, b), 0)

-----------------------------------------------------------------------------
(* Sequences and token order *)
SeqToSet(s) == {s[i] : i \in DOMAIN s}
CountIn(s, x) == Cardinality({i \in DOMAIN s : s[i] = x})

(* python s[a:b] with 0-based a <= b clipping *)
Slice0(s, a, b) ==
  LET bb == Min2(b, Len(s))  aa == Max2(a, 0)
  IN  IF bb <= aa THEN <<>> ELSE SubSeq(s, aa + 1, bb)

(* Sort a finite set of integers ascending *)
SortSet(S) == SetToSortSeq(S, <)

(* The library's token order: rarest first, ties alphabetical.  freq is a  *)
(* function token -> positive frequency.  The rank is the 1-based position *)
(* in that order (token_ordering[token] in utils/token_ordering.py).       *)
Before(freq, a, b) == freq[a] < freq[b] \/ (freq[a] = freq[b] /\ a < b)
RankIn(freq, a) == 1 + Cardinality({b \in DOMAIN freq : Before(freq, b, a)})

(* number of occurrences of tok over a sequence of token bags (sequences)  *)
RECURSIVE SumSeq(_)
SumSeq(s) == IF Len(s) = 0 THEN 0 ELSE Head(s) + SumSeq(Tail(s))

(* frequency function over a sequence of token lists (bags as sequences)   *)
FreqOf(lists) ==
  LET toks == UNION {SeqToSet(lists[i]) : i \in DOMAIN lists}
  IN  [t \in toks |-> SumSeq([i \in DOMAIN lists |-> CountIn(lists[i], t)])]

(* order_using_token_ordering: ranks of the tokens, sorted ascending (a    *)
(* bag keeps its repetitions).  toks is a sequence of tokens.              *)
RECURSIVE InsertSorted(_, _)
InsertSorted(s, x) ==
  IF Len(s) = 0 THEN <<x>>
  ELSE IF x <= Head(s) THEN <<x>> \o s ELSE <<Head(s)>> \o InsertSorted(Tail(s), x)
RECURSIVE SortAsc(_)
SortAsc(s) == IF Len(s) = 0 THEN <<>> ELSE InsertSorted(SortAsc(Tail(s)), Head(s))

OrderedRanks(toks, freq) ==
  SortAsc([i \in DOMAIN toks |-> RankIn(freq, toks[i])])

-----------------------------------------------------------------------------
(* q-grams of a string (sequence of character codes > 0).  With padding    *)
(* the string is extended by q-1 prefix pad characters (code -1) and q-1   *)
(* suffix pad characters (code -2), as py_stringmatching's QgramTokenizer  *)
(* does with '#' and '$'.  The result is the bag (sequence) of q-grams,    *)
(* each q-gram being a sequence of codes.                                  *)
PadStr(s, q, padding) ==
  IF padding THEN [i \in 1..(q - 1) |-> -1] \o s \o [i \in 1..(q - 1) |-> -2] ELSE s

Qgrams(s, q, padding) ==
  LET p == PadStr(s, q, padding)
  IN  IF Len(p) < q THEN <<>>
      ELSE [i \in 1..(Len(p) - q + 1) |-> SubSeq(p, i, i + q - 1)]

(* Levenshtein distance, row by row *)
RECURSIVE LevRow(_, _, _, _)
(* prev = DP row for a[1..i-1]; builds the row for a[1..i] left to right   *)
LevRow(prev, ai, b, cur) ==
  LET j == Len(cur)                     \* cur has entries for columns 0..j-1
  IN  IF j > Len(b) THEN cur
      ELSE LET cost == IF ai = b[j] THEN 0 ELSE 1
               v == Min2(Min2(prev[j + 1] + 1, cur[j] + 1), prev[j] + cost)
           IN  LevRow(prev, ai, b, Append(cur, v))
RECURSIVE LevFrom(_, _, _, _)
LevFrom(a, b, i, prev) ==
  IF i > Len(a) THEN prev[Len(b) + 1]
  ELSE LevFrom(a, b, i + 1, LevRow(prev, a[i], b, <<i>>))
Lev(a, b) == LevFrom(a, b, 1, [j \in 1..(Len(b) + 1) |-> j - 1])

=============================================================================
