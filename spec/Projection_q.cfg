SPECIFICATION Spec
CONSTANTS
  MaxReq = 3
  Sabotage = "none"
INVARIANT CellsRight
INVARIANT HeaderRight
CHECK_DEADLOCK FALSE
