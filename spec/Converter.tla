------------------------------ MODULE Converter ------------------------------
(***************************************************************************)
(* series_to_str / dataframe_column_to_str over abstract columns (C16).    *)
(* A column is a dtype tag and a sequence of abstract values:              *)
(*   numeric   1, 2 (small integers), 3 (zero), 4 (the integral 1e16),     *)
(*             5 (the fraction 1.5), 6 (negative zero), 7 (-3),            *)
(*             8 (the large fraction 123456.5), 9 (the integral 1e19, beyond *)
(*             the 64-bit integers), 0 missing                             *)
(*   strings   31, 32, 0 (missing)                                         *)
(* Result cells are codes: 0 missing; 100 + v the integer form str(int(v)) *)
(* of value v; 200 + v its float form str(v); 31, 32 the original strings; *)
(* 400 + v the unconverted number; 999 anything else (e.g. the string      *)
(* "nan").  The literal text of the two forms is produced by the harness   *)
(* with Python's str(); the envelope says which form must appear.          *)
(* Init enumerates the case space and prints GEN records; Expected* is the *)
(* envelope used by TraceConverter.tla.                                    *)
(***************************************************************************)
EXTENDS Integers, Sequences, FiniteSets, TLC, Json

CONSTANTS MaxLen

Numeric == {"int", "float"}
Domain(ct) == CASE ct = "int" -> {1, 2, 3, 7}
                [] ct = "float" -> {1, 3, 4, 5, 6, 8, 9, 0}
                [] OTHER -> {31, 32, 0}
Columns(ct) == UNION {[1..n -> Domain(ct)] : n \in 0..MaxLen}

AllMissing(vals) == \A k \in DOMAIN vals : vals[k] = 0
Degenerate(vals) == Len(vals) = 0 \/ AllMissing(vals)
AllIntegral(vals) == \A k \in DOMAIN vals : vals[k] \notin {5, 8}

(* the value as it was (unconverted) *)
Orig(ct, v) == IF ct \in Numeric THEN (IF v = 0 THEN 0 ELSE 400 + v) ELSE v
(* the value converted to its string form *)
Conv(ct, vals, v) ==
  IF v = 0 THEN 0
  ELSE IF ct = "int" THEN 100 + v
  ELSE IF ct = "float" THEN (IF AllIntegral(vals) THEN 100 + v ELSE 200 + v)
  ELSE v
ConvCol(ct, vals) == [k \in DOMAIN vals |-> Conv(ct, vals, vals[k])]
OrigCol(ct, vals) == [k \in DOMAIN vals |-> Orig(ct, vals[k])]

VARIABLES entry, ctype, vals, inplace, rc
vars == <<entry, ctype, vals, inplace, rc>>

Init == /\ entry \in {"series", "dataframe"}
        /\ ctype \in {"int", "float", "object", "str"}
        /\ vals \in Columns(ctype)
        /\ inplace \in {0, 1}
        /\ rc \in (IF entry = "series" THEN {0} ELSE {0, 1})
        /\ PrintT(<<"GEN", ToJson([entry |-> entry, ctype |-> ctype, vals |-> vals,
                                   inplace |-> inplace, rc |-> rc])>>)
Next == UNCHANGED vars
Spec == Init /\ [][Next]_vars
=============================================================================
