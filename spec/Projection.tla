------------------------------ MODULE Projection ------------------------------
(***************************************************************************)
(* How an output row is assembled (C11), as the code does it               *)
(* (utils/generic_helper.py):                                              *)
(*   remove_redundant_attrs        drop the key and repeats, keep order    *)
(*   get_attrs_to_project          [key, join] ++ (out \ {join})           *)
(*   convert_dataframe_to_array    the table projected on those columns    *)
(*   find_output_attribute_indices positions of the out attributes in the  *)
(*                                 projected column list                   *)
(*   get_output_row_from_tables    key cell, then the cells at those       *)
(*                                 positions                               *)
(* and what C11 demands: header = prefixed names of the de-duplicated      *)
(* request; every cell equals the source row's value of that attribute.    *)
(* Model-checked for every column order of a four-column table and every   *)
(* request of length <= MaxReq over {key, join, a, b} (with repeats).      *)
(* The missing-value branch (utils/missing_value_handler.py) indexes the   *)
(* ORIGINAL column list instead of the projected one; both are checked.    *)
(***************************************************************************)
EXTENDS Integers, Sequences, FiniteSets, TLC

CONSTANTS MaxReq,
          Sabotage       \* "none"; "table-order" projects in table order but indexes in request order (non-vacuity)

Names == {"id", "s", "a", "b"}
Perms == {p \in [1..4 -> Names] : \A i, j \in 1..4 : i # j => p[i] # p[j]}
Requests == UNION {[1..n -> Names] : n \in 0..MaxReq}

VARIABLES cols, req
vars == <<cols, req>>
Init == cols \in Perms /\ req \in Requests
Next == UNCHANGED vars
Spec == Init /\ [][Next]_vars

RECURSIVE Dedup(_, _, _)
Dedup(attrs, key, seen) ==
  IF Len(attrs) = 0 THEN <<>>
  ELSE IF Head(attrs) = key \/ Head(attrs) \in seen THEN Dedup(Tail(attrs), key, seen)
       ELSE <<Head(attrs)>> \o Dedup(Tail(attrs), key, seen \cup {Head(attrs)})

IndexOf(seq, x) == CHOOSE k \in DOMAIN seq : seq[k] = x
(* a source row: the cell of attribute n is the string n itself *)
RowInOrder(order) == [k \in DOMAIN order |-> order[k]]

Out == Dedup(req, "id", {})
Proj == <<"id", "s">> \o SelectSeq(Out, LAMBDA n : n # "s")
ProjUsed == IF Sabotage = "table-order" THEN SelectSeq(cols, LAMBDA n : n \in {Proj[k] : k \in DOMAIN Proj}) ELSE Proj
(* normal branch: row of the projected array, indices into the projected column list *)
NormalRow == LET row == RowInOrder(ProjUsed)
                 ix == [k \in DOMAIN Out |-> IndexOf(Proj, Out[k])]
             IN  <<row[IndexOf(Proj, "id")]>> \o [k \in DOMAIN Out |-> row[ix[k]]]
(* missing-value branch: row of the original table, indices into the original column list *)
MissingRow == LET row == RowInOrder(cols)
                  ix == [k \in DOMAIN Out |-> IndexOf(cols, Out[k])]
              IN  <<row[IndexOf(cols, "id")]>> \o [k \in DOMAIN Out |-> row[ix[k]]]

Wanted == <<"id">> \o Out
CellsRight == NormalRow = Wanted /\ MissingRow = Wanted
HeaderRight == \A k \in DOMAIN Out : Out[k] # "id" /\ \A j \in DOMAIN Out : j # k => Out[j] # Out[k]
=============================================================================
