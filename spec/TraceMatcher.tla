----------------------------- MODULE TraceMatcher -----------------------------
(***************************************************************************)
(* Property-layer validation of apply_matcher (C05) and filter_candset     *)
(* (C06), including their treatment of missing values (C08).               *)
(*                                                                         *)
(* kind "matcher": the result must be exactly the subsequence of the       *)
(*   candidate set whose rows satisfy  present /\ cmp(sim, t)  or          *)
(*   missing /\ allow_missing, in the original order, with the original    *)
(*   _id, the projected attributes of the referenced rows and the score    *)
(*   (NaN for missing rows).  sim is the exact rational supplied by the    *)
(*   case (table similarity) or the Jaccard similarity of the token sets.  *)
(* kind "candset": the result must be exactly the sub-table (columns,      *)
(*   order, index labels, extra column) selected by the recorded public    *)
(*   filter_pair outcomes fp (1 = dropped); for the OverlapFilter fp must  *)
(*   itself be exact: kept iff both values have tokens and overlap op size *)
(*   (with a padded q-gram tokenizer the empty string has one token).      *)
(***************************************************************************)
EXTENDS Semantics, Json, IOUtils

Traces == JsonDeserialize(IOEnv.TRACE_FILE)
VARIABLES i, verdict
vars == <<i, verdict>>

PosOf(seq, x) == CHOOSE k \in DOMAIN seq : seq[k] = x

Judge(T) ==
  LET O == T.obs
      LRow(k) == T.L[CHOOSE a \in DOMAIN T.L : T.L[a].k = k]
      RRow(k) == T.R[CHOOSE b \in DOMAIN T.R : T.R[b].k = k]
      C == T.C
      Missing(c) == LRow(c.l).p = 0 \/ RRow(c.r).p = 0
      Sim(c) == IF T.simkind = "table"
                THEN LET e == CHOOSE e \in DOMAIN T.simtab : T.simtab[e][1] = c.l /\ T.simtab[e][2] = c.r
                     IN  <<T.simtab[e][3], T.simtab[e][4], T.simtab[e][5]>>
                ELSE LET x == SeqToSet(LRow(c.l).v)  y == SeqToSet(RRow(c.r).v)
                     IN  IF x = {} /\ y = {} THEN <<1, 1, 0>>
                         ELSE <<Cardinality(x \cap y), Cardinality(x \cup y), 0>>
      (* the similarity is the double nearest to Sim[1]/Sim[2], moved by Sim[3] in {-1, 0, 1} units in the *)
      (* last place: a score one ulp off the threshold is not equal to it                                  *)
      KeepM(c) == IF Missing(c) THEN T.am = 1
                  ELSE IF Sim(c)[1] * T.t[2] = T.t[1] * Sim(c)[2] THEN CmpInt(T.op, Sim(c)[3], 0)
                  ELSE CmpInt(T.op, Sim(c)[1] * T.t[2], T.t[1] * Sim(c)[2])
      KeepC(k) == T.fp[k] = 0
      Sel == IF T.kind = "matcher" THEN {k \in DOMAIN C : KeepM(C[k])}
             ELSE {k \in DOMAIN C : KeepC(k)}
      Expected == SetToSortSeq(Sel, <)          \* indices into C, ascending
      Rows == O.rows
      Cells(cols, row, out, key) ==
        LET d == Dedup(out, key, {}) IN [k \in DOMAIN d |-> row.c[PosOf(cols, d[k])]]
      RowOK(r, c) ==
        /\ r.id = c.id /\ r.l = c.l /\ r.r = c.r
        /\ IF T.kind = "matcher"
           THEN /\ r.la = Cells(T.lcols, LRow(c.l), T.lout, T.lkey)
                /\ r.ra = Cells(T.rcols, RRow(c.r), T.rout, T.rkey)
                /\ IF T.sc = 0 THEN r.s[1] = 0
                   ELSE IF Missing(c) THEN r.s[1] = 1
                   ELSE /\ r.s[1] = (CASE Sim(c)[3] = 0 -> 3 [] Sim(c)[3] = 1 -> 5 [] OTHER -> 6)
                        /\ r.s[3] > 0 /\ r.s[2] * Sim(c)[2] = Sim(c)[1] * r.s[3]
           ELSE r.x = c.x /\ r.ix = c.ix
      Header ==
        IF T.kind = "matcher"
        THEN <<"_id", T.lpre \o T.lkey, T.rpre \o T.rkey>>
             \o [k \in DOMAIN Dedup(T.lout, T.lkey, {}) |-> T.lpre \o Dedup(T.lout, T.lkey, {})[k]]
             \o [k \in DOMAIN Dedup(T.rout, T.rkey, {}) |-> T.rpre \o Dedup(T.rout, T.rkey, {})[k]]
             \o (IF T.sc = 1 THEN <<"_sim_score">> ELSE <<>>)
        ELSE T.ccols
      P == IF T.kind = "matcher" THEN "C05" ELSE "C06"
      MissingInvolved == \E k \in DOMAIN C : Missing(C[k])
      (* OverlapFilter exactness of the recorded filter_pair outcomes *)
      FpExact(k) ==
        LET c == C[k]  a == LRow(c.l)  b == RRow(c.r) IN
        IF Missing(c) THEN T.fp[k] = (IF T.am = 1 THEN 0 ELSE 1)
        ELSE LET x == SeqToSet(a.v)  y == SeqToSet(b.v)
                 keep == x # {} /\ y # {} /\ CmpInt(T.op, Cardinality(x \cap y) * T.t[2], T.t[1])
             IN  T.fp[k] = (IF keep THEN 0 ELSE 1)
  IN
  IF O.raised # ""
  THEN {<<P, "valid-call-raised", 0, 0>>, <<"C15", "valid-call-raised", 0, 0>>}
       \cup (IF MissingInvolved THEN {<<"C08", "valid-call-raised", 0, 0>>} ELSE {})
  ELSE
     (IF Len(C) > 0 /\ O.cols # Header THEN {<<P, "header", 0, 0>>} ELSE {})
     \cup (LET ObsIds == [k \in DOMAIN Rows |-> Rows[k].id]
                ExpIds == [k \in DOMAIN Expected |-> C[Expected[k]].id]
                CandOf(id) == C[CHOOSE k \in DOMAIN C : C[k].id = id]
                Known(id) == \E k \in DOMAIN C : C[k].id = id
            IN  (IF ObsIds # ExpIds
                 THEN {<<P, "rows-selected", Len(Rows), Len(Expected)>>}
                      \cup (IF \E k \in DOMAIN C : Missing(C[k])
                                  /\ ((k \in Sel) # (\E r \in DOMAIN Rows : Rows[r].id = C[k].id))
                            THEN {<<"C08", "missing-rows-selected", Len(Rows), Len(Expected)>>} ELSE {})
                 ELSE {})
                \cup UNION {IF ~Known(Rows[k].id) THEN {<<P, "unknown-id", k, Rows[k].id>>}
                            ELSE IF RowOK(Rows[k], CandOf(Rows[k].id)) THEN {}
                            ELSE {<<(IF Missing(CandOf(Rows[k].id)) THEN "C08" ELSE P), "row-differs", k, Rows[k].id>>}
                                 \cup (IF ~Missing(CandOf(Rows[k].id)) /\ Rows[k].s[1] = 1
                                       THEN {<<"C08", "nan-score-for-present-pair", k, Rows[k].id>>} ELSE {})
                            : k \in DOMAIN Rows})
     \cup (IF T.kind = "candset" /\ T.filt = "OVERLAP"
           THEN {<<(IF Missing(C[k]) THEN "C08" ELSE "C06"), "overlap-filter_pair-not-exact", C[k].l, C[k].r>> :
                    k \in {k \in DOMAIN C : ~FpExact(k)}}
           ELSE {})
     \cup (IF T.kind = "candset"
           THEN (* C09: a candidate pair of two present, token-less values survives filter_candset iff allow_empty *)
                (* holds and the measure admits empty pairs (never for OVERLAP and the OverlapFilter)              *)
                LET Kept(k) == \E r \in DOMAIN Rows : Rows[r].id = C[k].id
                    BothE(k) == ~Missing(C[k]) /\ Len(LRow(C[k].l).v) = 0 /\ Len(RRow(C[k].r).v) = 0
                    Admit == T.filt # "OVERLAP" /\ EmptyAdmitted(T.meas, T.ae = 1)
                IN  {<<"C09", "empty-pair-kept", C[k].l, C[k].r>> : k \in {k \in DOMAIN C : BothE(k) /\ Kept(k) /\ ~Admit}}
                    \cup {<<"C09", "empty-pair-dropped", C[k].l, C[k].r>> : k \in {k \in DOMAIN C : BothE(k) /\ ~Kept(k) /\ Admit}}
           ELSE {})
     \cup (IF T.kind = "candset" /\ T.filt # "OVERLAP" /\ T.meas \in SetMeasures
           THEN (* C04: a candidate pair whose exact similarity reaches the threshold survives filter_candset *)
                {<<"C04", "qualifying-pair-dropped", C[k].l, C[k].r>> :
                    k \in {k \in DOMAIN C : ~Missing(C[k])
                              /\ KeepMust(T.meas, <<T.t[1], T.t[2]>>, SeqToSet(LRow(C[k].l).v), SeqToSet(RRow(C[k].r).v))
                              /\ ~(\E r \in DOMAIN Rows : Rows[r].id = C[k].id)}}
           ELSE {})
     \cup (IF T.kind = "candset" /\ T.filt # "OVERLAP"
           THEN {<<"C08", "filter_pair-missing-value", C[k].l, C[k].r>> :
                    k \in {k \in DOMAIN C : Missing(C[k]) /\ T.fp[k] # (IF T.am = 1 THEN 0 ELSE 1)}}
           ELSE {})
     \cup (IF O.csame # 1 \/ O.lsame # 1 \/ O.rsame # 1 THEN {<<"C12", "inputs-modified", 0, 0>>} ELSE {})
     (* implementation layer (hook events): cache decision |L| + |R| < 2 |C| and the chunk sizes *)
     \cup (IF T.hook.have = 1 /\ T.kind = "matcher" /\ Len(C) > 0
              /\ T.hook.cache # (IF T.tokmode = 1 /\ Len(T.L) + Len(T.R) < 2 * Len(C) THEN 1 ELSE 0)
           THEN {<<"DRIFT", "token-cache-decision", T.hook.cache, Len(C)>>} ELSE {})
     \cup (IF T.hook.have = 1 /\ Len(C) > 0 /\ T.hook.nin # Len(C)
           THEN {<<"DRIFT", "chunks-do-not-cover-the-candidate-set", T.hook.nin, Len(C)>>} ELSE {})
     \cup (IF O.fa # O.fb THEN {<<"C12", "flag", 0, 0>>} ELSE {})

Init == i = 0 /\ verdict = {}
Next == /\ i < Len(Traces)
        /\ i' = i + 1
        /\ verdict' = Judge(Traces[i + 1])
Spec == Init /\ [][Next]_vars
Report ==
  i >= 1 => PrintT(<<"VERDICT", ToJson([tid |-> Traces[i].tid, fails |-> verdict])>>)
=============================================================================
