#!/venv/bin/python
"""Prints a markdown table of the seeded mutations and what detected them (seeded/*/meta.json, detect.txt)."""
import glob, json, os, re
rows = []
for d in sorted(glob.glob('/verif/seeded/C*')):
    m = json.load(open(os.path.join(d, 'meta.json')))
    det = open(os.path.join(d, 'detect.txt')).read() if os.path.exists(os.path.join(d, 'detect.txt')) else ''
    code = re.search(r'exit=(\d+)', det)
    engines = sorted(set(re.findall(r'engine=(\w+) clause=([\w:.-]+)', det)))
    eng = ', '.join('%s `%s`' % e for e in engines[:3]) or ('-' if det else 'not run yet')
    status = {'1': 'detected', '0': '**not detected**', '2': 'machinery failure'}.get(code.group(1) if code else '', 'pending')
    if det.startswith('engine-run:'):
        status = 'detected (engine run directly, see detect.txt)'
    summary = (m.get('summary') or '').replace('|', '/').replace('\n', ' ')
    if len(summary) > 150:
        summary = summary[:147] + '...'
    rows.append('| %s | %s | %s | %s | %s |' % (os.path.basename(d), m['property'], summary, status, eng))
print('| id | property | change | result of `./vf check <property> --tier quick --first-hit` | first engine / clauses |')
print('|---|---|---|---|---|')
print('\n'.join(rows))
