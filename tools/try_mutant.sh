#!/bin/bash
# usage: try_mutant.sh <patch.diff> <vf args...>   e.g.  try_mutant.sh seeded/X/patch.diff engine E5
# Applies the patch to a scratch worktree of /repo's HEAD (outside /repo and /verif), runs ./vf there
# via VERIF_REPO, and removes the worktree again.
set -u
PATCH="$(readlink -f "$1")"; shift
HOME_DIR="$(dirname "$(dirname "$(readlink -f "$0")")")"
WT="$(mktemp -d /tmp/wt_mut.XXXXXX)"
git -C /repo worktree add -q --detach "$WT" HEAD || exit 2
if ! git -C "$WT" apply --3way "$PATCH" 2>/dev/null && ! git -C "$WT" apply "$PATCH"; then
  echo "PATCH DOES NOT APPLY"; git -C /repo worktree remove --force "$WT"; exit 3
fi
( cd "$HOME_DIR" && VERIF_REPO="$WT" VERIF_EVIDENCE_DIR="$HOME_DIR/.work/mutant-evidence" VERIF_REPLAY_DIR="$HOME_DIR/.work/mutant-replay" ./vf "$@" )
rc=$?
git -C /repo worktree remove --force "$WT"
exit $rc
