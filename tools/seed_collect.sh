#!/bin/bash
# usage: seed_collect.sh <Cxx> <A|B>
# Confirms a sub-agent's mutation in a scratch worktree of /repo HEAD (patch applies, baseline suite still
# passes, the demonstration fails with the change and passes without) and stores it under /verif/seeded/.
P="$1"; V="$2"; ROOT="${3:-/tmp/seed}"; NAME="${4:-$V}"
SRC="$ROOT/$P/_seed_out"
OUT="/verif/seeded/$P$NAME"
WT="$(mktemp -d /tmp/wt_seed.XXXXXX)"
git -C /repo worktree add -q --detach "$WT" HEAD || exit 2
cd "$WT"
status="ok"
PYTHONPATH="$WT" /venv/bin/python -W ignore "$SRC/demo$V.py" > "$WT/_clean.log" 2>&1; rc_clean=$?
if ! git apply "$SRC/mut$V.diff" 2>/dev/null && ! git apply --3way "$SRC/mut$V.diff" 2>/dev/null; then status="patch-does-not-apply"; fi
if [ "$status" = "ok" ]; then
  git diff -- py_stringsimjoin > "$WT/_patch.diff"
  PYTHONPATH="$WT" /venv/bin/python -W ignore "$SRC/demo$V.py" > "$WT/_mut.log" 2>&1; rc_mut=$?
  VERIF_REPO="$WT" /verif/tools/baseline_check.sh > "$WT/_base.log" 2>&1; rc_base=$?
  [ $rc_clean -ne 0 ] && status="demo-fails-on-clean-tree"
  [ $rc_mut -eq 0 ] && status="demo-passes-with-mutation"
  [ $rc_base -ne 0 ] && status="baseline-broken"
fi
echo "$P$NAME: $status (demo clean rc=$rc_clean, mutated rc=${rc_mut:-NA}, baseline rc=${rc_base:-NA})"
if [ "$status" = "ok" ]; then
  mkdir -p "$OUT"
  cp "$WT/_patch.diff" "$OUT/patch.diff"
  cp "$SRC/demo$V.py" "$OUT/demo.py"
  /venv/bin/python - "$SRC/meta$V.json" "$OUT/meta.json" "$P" <<'PY'
import json, sys
m = json.load(open(sys.argv[1]))
out = {'property': sys.argv[3], 'summary': m.get('summary'), 'needs': m.get('needs'), 'files': m.get('files'),
       'source': 'independent sub-agent given only the property text and a scratch worktree',
       'confirmed': ['patch applies to /repo HEAD in a scratch worktree', 'tools/baseline_check.sh: 109/109 baseline tests pass with the change',
                     'demo.py exits 0 on the clean tree and non-zero with the change'],
       'detected_by': []}
json.dump(out, open(sys.argv[2], 'w'), indent=1)
PY
fi
cd /; git -C /repo worktree remove --force "$WT"
