#!/bin/bash
# Runs the registered quick check of each seeded mutation's property against the mutated tree
# (scratch worktree via tools/try_mutant.sh) and records the outcome in seeded/<id>/detect.txt.
cd "$(dirname "$(dirname "$(readlink -f "$0")")")"
for d in ${@:-seeded/*/}; do
  d="${d%/}"
  id="$(basename "$d")"
  prop="$(/venv/bin/python -c "import json;print(json.load(open('$d/meta.json'))['property'])")"
  start=$(date +%s)
  tools/try_mutant.sh "$d/patch.diff" check "$prop" --tier quick --first-hit > "$d/.detect.raw" 2>&1
  rc=$?
  {
    echo "check: ./vf check $prop --tier quick --first-hit (VERIF_REPO=<scratch worktree with patch.diff>)  exit=$rc  wall=$(( $(date +%s) - start ))s"
    grep -c "^VIOLATION property=$prop" "$d/.detect.raw" | sed 's/^/VIOLATION lines: /'
    grep -A1 "^VIOLATION" "$d/.detect.raw" | grep "engine=" | sed 's/detail=.*//' | sort | uniq -c | sort -rn | head -8
    tail -1 "$d/.detect.raw"
  } > "$d/detect.txt"
  rm -f "$d/.detect.raw"
  echo "$id exit=$rc"
done
