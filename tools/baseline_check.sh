#!/bin/bash
# Runs the repository's pinned baseline (guard OFF) and verifies that every
# test in BASELINE.json's stable_pass list passes.  Exit 0 iff all pass.
unset PY_STRINGSIMJOIN_VERIF PY_STRINGSIMJOIN_VERIF_TRACE
REPO="${VERIF_REPO:-/repo}"
OUT="$(mktemp -d)"
cd "$REPO" && /venv/bin/python -m pytest -ra -q -p no:cacheprovider --timeout=900 \
   --continue-on-collection-errors --junitxml="$OUT/junit.xml" >"$OUT/log" 2>&1
/venv/bin/python - "$OUT/junit.xml" <<'PY'
import json, sys, xml.etree.ElementTree as ET
base = json.load(open('/root/.vp/BASELINE.json'))['stable_pass']
ok = set()
for tc in ET.parse(sys.argv[1]).getroot().iter('testcase'):
    if not any(c.tag in ('failure', 'error', 'skipped') for c in tc):
        ok.add(tc.get('classname') + '::' + tc.get('name'))
missing = [t for t in base if t not in ok]
print('baseline tests passing: %d / %d' % (len(base) - len(missing), len(base)))
for t in missing:
    print('NOT PASSING', t)
sys.exit(1 if missing else 0)
PY
rc=$?
rm -rf "$OUT"
exit $rc
