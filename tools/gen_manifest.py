#!/venv/bin/python
"""Regenerates /verif/MANIFEST.json from harness/vf/props.py (single source)."""
import json, os, sys
HERE = os.path.dirname(os.path.dirname(os.path.abspath(__file__)))
sys.path.insert(0, os.path.join(HERE, 'harness'))
from vf.props import PROPS, TEXT, NOT_APPLICABLE, ENGINE_INFO

ALL = ['C%02d' % i for i in range(1, 18)]
checks = []
for pid in ALL:
    if pid not in PROPS:
        continue
    t = TEXT[pid]
    checks.append({
        'property_id': pid,
        'quick_cmd': './vf check %s --tier quick' % pid,
        'thorough_cmd': './vf check %s --tier thorough' % pid,
        'evidence_file': '/verif/evidence/%s.json' % pid,
        'replay_cmd_template': './vf replay {path}',
        'engine': '+'.join(sorted(set(PROPS[pid]['engines']['quick'] + PROPS[pid]['engines']['thorough']))),
        'level_claimed': {'category': 'model_checking', 'text': t['level'], 'design_ref': t['ref']},
        'level_note': t['note'],
        'technique': t['technique'],
    })
na = [{'property_id': p, 'reason': NOT_APPLICABLE[p]} for p in ALL if p not in PROPS]
man = {
    'version': 1,
    'setup_cmd': 'cd /verif && mkdir -p .work evidence replay && java -version 2>&1 | head -1 && /venv/bin/python -c "import pandas, joblib, py_stringmatching"',
    'hooks': {
        'guard': 'PY_STRINGSIMJOIN_VERIF',
        'enable': 'environment variable PY_STRINGSIMJOIN_VERIF=1 set by the harness before importing py_stringsimjoin from /repo (optional PY_STRINGSIMJOIN_VERIF_TRACE=<dir> writes events of worker processes to <dir>/<pid>.ndjson); no build step',
        'baseline_off_cmd': '/verif/tools/baseline_check.sh',
        'source_commits': json.load(open(os.path.join(HERE, 'tools', 'hook_commits.json'))),
        'add_only': True,
    },
    'engines': [{'name': k, 'path': v['path'], 'serves_properties': sorted(p for p in PROPS if k in PROPS[p]['engines']['quick'] + PROPS[p]['engines']['thorough']),
                 'kind_free_text': v['kind']} for k, v in sorted(ENGINE_INFO.items())],
    'checks': checks,
    'not_applicable': na,
    'notes': 'Model-based verification with an explicit TLA+ specification (spec/*.tla). TLC is the only oracle: it enumerates the case spaces (spec -> code), model-checks the algorithm specifications, and validates every recorded execution of the real library against the specification (code -> spec). Exit codes: 0 held, 1 VIOLATION, 2 machinery failure. See DESIGN.md.',
}
with open(os.path.join(HERE, 'MANIFEST.json'), 'w') as fh:
    json.dump(man, fh, indent=1)
print('MANIFEST.json: %d checks, %d not_applicable' % (len(checks), len(na)))
