#!/bin/bash
# Assembles /verif/DESIGN.md from docs/*.md; the mutation table is generated from seeded/*/.
cd /verif
tools/mutation_table.py > .work/mutation_table.md
/venv/bin/python - <<'PY'
parts = []
for name in ('10_head.md', '20_mid.md', '30_mutations.md', '40_tail.md', '50_part2_original_design.md'):
    text = open('/verif/docs/' + name).read()
    if name.startswith('30'):
        text = text.replace('@TABLE@', open('/verif/.work/mutation_table.md').read())
    if name.startswith('50'):
        # demote the original title and status line
        text = text.replace('# Verification design for py_stringsimjoin — model-based, explicit TLA+ specification\n', '', 1)
        text = text.replace('Status: design only; no framework code is committed yet.', 'Status when written: design only; no framework code was committed yet.', 1)
    parts.append(text)
open('/verif/DESIGN.md', 'w').write('\n'.join(parts))
PY
wc -l DESIGN.md
