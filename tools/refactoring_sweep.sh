#!/bin/bash
# Property-preserving refactorings must not raise an alarm: every listed check must exit 0 without VIOLATION lines.
cd "$(dirname "$(dirname "$(readlink -f "$0")")")"
rc=0
for d in seeded/_refactorings/*.diff; do
  for prop in ${PROPS:-C01 C02 C11 C15}; do
    out="$(tools/try_mutant.sh "$d" check "$prop" --tier quick 2>&1)"; code=$?
    nv=$(echo "$out" | grep -c "^VIOLATION")
    nd=$(echo "$out" | grep -c "^DRIFT")
    echo "$(basename $d .diff) $prop exit=$code violations=$nv drift_lines=$nd"
    [ $code -ne 0 ] && rc=1
  done
done
exit $rc
