"""Loading the library under verification from the current working tree."""
import hashlib
import os
import sys
import warnings

from . import config

_loaded = {}


def load(hooks=True):
    """Import py_stringsimjoin from config.REPO (hooks on unless told otherwise)."""
    if 'ssj' in _loaded:
        return _loaded['ssj']
    warnings.filterwarnings('ignore')
    if hooks:
        os.environ[config.HOOK_GUARD] = '1'
    else:
        os.environ.pop(config.HOOK_GUARD, None)
    os.environ.setdefault('PYTHONWARNINGS', 'ignore')
    sys.dont_write_bytecode = True
    if config.REPO not in sys.path:
        sys.path.insert(0, config.REPO)
    import py_stringsimjoin as ssj
    where = os.path.dirname(os.path.dirname(os.path.abspath(ssj.__file__)))
    if os.path.realpath(where) != os.path.realpath(config.REPO):
        raise RuntimeError('py_stringsimjoin imported from %s, expected %s' % (where, config.REPO))
    ssj.__use_cython__ = False           # documented switch (docs/cython.rst)
    _loaded['ssj'] = ssj
    return ssj


def hooks_module():
    load()
    try:
        from py_stringsimjoin.utils import verif_hooks
        return verif_hooks if getattr(verif_hooks, 'ENABLED', False) else None
    except Exception:
        return None


def tree_hash(with_repo=True):
    """SHA-256 over the library sources, the specifications and the harness."""
    h = hashlib.sha256()
    roots = [config.SPEC, os.path.join(config.VERIF, 'harness'), config.KNOWN]
    if with_repo:
        roots.insert(0, os.path.join(config.REPO, 'py_stringsimjoin'))
    for root in roots:
        if os.path.isfile(root):
            h.update(open(root, 'rb').read())
            continue
        for dirpath, dirnames, filenames in sorted(os.walk(root)):
            dirnames[:] = sorted(d for d in dirnames if d != '__pycache__' and d != 'tests')
            for name in sorted(filenames):
                if name.endswith(('.pyc', '.pyo')):
                    continue
                path = os.path.join(dirpath, name)
                h.update(os.path.relpath(path, root).encode())
                with open(path, 'rb') as handle:
                    h.update(handle.read())
    return h.hexdigest()
