"""Concrete cases -> real calls -> abstract trace records.

A *case* is a JSON-serialisable description of one API call on concrete
tables.  ``execute`` runs it on the library under verification and returns the
raw observation; ``abstract`` turns case + observation into the record that
spec/TraceAPI.tla judges.  Nothing here decides whether an outcome is right.

Table spec : {'cols': [...], 'rows': [[...], ...], 'index': [...] | None,
              'sdtype': 'object' | 'str'}          (None stands for a missing cell)
Call spec  : {'api', 'tok', 't': [p, q], 'op', 'ae', 'am', 'sc', 'lout', 'rout',
              'lpre', 'rpre', 'n_jobs', 'backend', 'lkey', 'rkey', 'lattr', 'rattr'}
"""
import math
from fractions import Fraction

import numpy as np
import pandas as pd

from . import lib

JOINS = {
    'jaccard_join': 'JACCARD', 'cosine_join': 'COSINE', 'dice_join': 'DICE',
    'overlap_coefficient_join': 'OVERLAP_COEFFICIENT', 'overlap_join': 'OVERLAP',
    'edit_distance_join': 'EDIT_DISTANCE',
}
FILTERS = {'SIZE': 'SizeFilter', 'PREFIX': 'PrefixFilter', 'POSITION': 'PositionFilter',
           'SUFFIX': 'SuffixFilter', 'OVERLAP': 'OverlapFilter'}


# ---------------------------------------------------------------- concretise
def make_df(spec, attr=None):
    cols = spec['cols']
    data = {}
    for ci, col in enumerate(cols):
        values = [row[ci] for row in spec['rows']]
        special = spec.get('special', {}).get(col)
        if special == 'dt_ns':
            data[col] = pd.Series(pd.to_datetime(values, unit='ns'))          # datetime64[ns]
            continue
        if special == 'td_ns':
            data[col] = pd.Series(pd.to_timedelta(values, unit='ns'))         # timedelta64[ns]
            continue
        if col in spec.get('strcols', [attr] if attr else []):
            if spec.get('sdtype', 'object') == 'string':
                ser = pd.Series(values, dtype='string')          # nullable string dtype, missing = pd.NA
            elif spec.get('sdtype', 'object') == 'str':
                ser = pd.Series(values, dtype='str')
            else:
                ser = pd.Series(values, dtype=object)
        else:
            if any(v is None for v in values) and all(
                    v is None or isinstance(v, (int, float)) for v in values):
                ser = pd.Series([np.nan if v is None else v for v in values], dtype=float)
            elif values and all(isinstance(v, bool) for v in values):
                ser = pd.Series(values, dtype=bool)
            elif values and all(isinstance(v, int) for v in values):
                ser = pd.Series(values, dtype='int64')
            elif values and all(isinstance(v, (int, float)) for v in values):
                ser = pd.Series(values, dtype=float)
            else:
                ser = pd.Series(values, dtype=object)
        data[col] = ser
    df = pd.DataFrame(data, columns=cols)
    if len(cols) and not len(spec['rows']):
        for col in cols:
            if col in spec.get('strcols', [attr] if attr else []):
                df[col] = df[col].astype({'object': object, 'str': 'str', 'string': 'string'}[spec.get('sdtype', 'object')])
    if spec.get('index') is not None:
        df.index = list(spec['index'])
    return df


def make_tokenizer(tok, return_set=None):
    import py_stringmatching as sm
    rs = bool(tok.get('rs', 1)) if return_set is None else return_set
    kind = tok['kind']
    if kind == 'ws':
        return sm.WhitespaceTokenizer(return_set=rs)
    if kind == 'qg':
        return sm.QgramTokenizer(qval=tok.get('q', 2), padding=bool(tok.get('pad', 1)),
                                 return_set=rs)
    if kind == 'delim':
        return sm.DelimiterTokenizer(set(tok.get('delims', [','])), return_set=rs)
    if kind == 'alpha':
        return sm.AlphabeticTokenizer(return_set=rs)
    if kind == 'alnum':
        return sm.AlphanumericTokenizer(return_set=rs)
    raise ValueError(kind)


def threshold_value(case):
    p, q = case['t']
    meas = case['meas']
    if meas in ('OVERLAP', 'EDIT_DISTANCE'):
        return p // q if p % q == 0 else p / q
    return p / q


# ------------------------------------------------------------------- execute
def snapshot(df):
    return {'copy': df.copy(deep=True), 'cols': list(df.columns), 'dtypes': [str(d) for d in df.dtypes],
            'index': list(df.index)}


def same_as_snapshot(df, snap):
    try:
        return int(list(df.columns) == snap['cols'] and [str(d) for d in df.dtypes] == snap['dtypes']
                   and list(df.index) == snap['index'] and df.equals(snap['copy']))
    except Exception:
        return 0


def call_api(ssj, case, ltable, rtable, tokenizer):
    """Perform the call described by case; returns the library's return value."""
    thr = threshold_value(case)
    kw = dict(l_out_attrs=case.get('lout'), r_out_attrs=case.get('rout'),
              l_out_prefix=case.get('lpre', 'l_'), r_out_prefix=case.get('rpre', 'r_'),
              n_jobs=case.get('n_jobs', 1), show_progress=bool(case.get('progress', 0)))
    keys = (case.get('lkey', 'id'), case.get('rkey', 'id'), case.get('lattr', 's'), case.get('rattr', 's'))
    if case['kind'] == 'join':
        api = case['api']
        fn = getattr(ssj, api)
        kw['out_sim_score'] = bool(case.get('sc', 1))
        kw['allow_missing'] = bool(case.get('am', 0))
        if api == 'edit_distance_join':
            if case.get('default_tok'):
                return fn(ltable, rtable, *keys, thr, case['op'], **kw)
            return fn(ltable, rtable, *keys, thr, case['op'], tokenizer=tokenizer, **kw)
        if api != 'overlap_join':
            kw['allow_empty'] = bool(case.get('ae', 1))
        return fn(ltable, rtable, *keys, tokenizer, thr, case['op'], **kw)
    # filter_tables
    cls = getattr(ssj, FILTERS[case['filt']])
    if case['filt'] == 'OVERLAP':
        flt = cls(tokenizer, thr, case['op'], allow_missing=bool(case.get('am', 0)))
        kw['out_sim_score'] = bool(case.get('sc', 0))
    else:
        flt = cls(tokenizer, case['meas'], thr, allow_empty=bool(case.get('ae', 1)),
                  allow_missing=bool(case.get('am', 0)))
    if case.get('prewarm'):
        # the same filter object used before with its tokenizer configured the other way (set <-> bag) on the same
        # tables; the judged call follows with the tokenizer back in its own configuration
        mode = bool(tokenizer.get_return_set())
        tokenizer.set_return_set(not mode)
        try:
            flt.filter_tables(ltable, rtable, *keys, n_jobs=1, show_progress=False)
            for lv in ltable[keys[2]].tolist()[:3]:
                for rv in rtable[keys[3]].tolist()[:3]:
                    flt.filter_pair(lv, rv)
        except Exception:
            pass
        finally:
            tokenizer.set_return_set(mode)
        from . import lib as _lib
        vh = _lib.hooks_module()
        if vh:
            vh.drain()
    return flt.filter_tables(ltable, rtable, *keys, **kw)


def execute_filter_pair(case):
    """filter_pair of the case's filter on every pair of present values of the two tables, presented as the
    DataFrame filter_tables would return for the pairs that are not dropped (pairs of two token-less values are
    left out: no property speaks about them at the pair level).  Same return shape as execute()."""
    ssj = lib.load()
    vh = lib.hooks_module()
    ltable = make_df(case['L'], case.get('lattr', 's'))
    rtable = make_df(case['R'], case.get('rattr', 's'))
    tokenizer = make_tokenizer(case['tok'])
    fb = int(bool(tokenizer.get_return_set()))
    lsnap, rsnap = snapshot(ltable), snapshot(rtable)
    thr = threshold_value(case)
    lk, rk, la, ra = case.get('lkey', 'id'), case.get('rkey', 'id'), case.get('lattr', 's'), case.get('rattr', 's')
    raised, result = '', None
    try:
        cls = getattr(ssj, FILTERS[case['filt']])
        if case['filt'] == 'OVERLAP':
            flt = cls(tokenizer, thr, case['op'], allow_missing=False)
        else:
            flt = cls(tokenizer, case['meas'], thr, allow_empty=bool(case.get('ae', 1)), allow_missing=False)
        rows = []
        for lkey, lv in zip(ltable[lk].tolist(), ltable[la].tolist()):
            if is_missing(lv):
                continue
            for rkey, rv in zip(rtable[rk].tolist(), rtable[ra].tolist()):
                if is_missing(rv) or (not tokenizer.tokenize(lv) and not tokenizer.tokenize(rv)):
                    continue
                if not flt.filter_pair(lv, rv):
                    rows.append([len(rows), lkey, rkey])
        result = pd.DataFrame(rows, columns=['_id', case.get('lpre', 'l_') + lk, case.get('rpre', 'r_') + rk])
    except Exception as exc:
        raised = type(exc).__name__
        case['_exc'] = '%s: %s' % (type(exc).__name__, str(exc)[:300])
    if vh:
        vh.drain()
    obs = {'raised': raised, 'fb': fb, 'fa': int(bool(tokenizer.get_return_set())),
           'lsame': same_as_snapshot(ltable, lsnap), 'rsame': same_as_snapshot(rtable, rsnap)}
    return obs, result, [], (ltable, rtable)


def execute(case, tokenizer=None):
    """Run the case; returns (obs, result_dataframe_or_None, hook_events).  A tokenizer object may be handed in so
    that several calls share it."""
    import joblib
    ssj = lib.load()
    vh = lib.hooks_module()
    ltable = make_df(case['L'], case.get('lattr', 's'))
    rtable = make_df(case['R'], case.get('rattr', 's'))
    if case.get('same_object'):
        rtable = ltable                              # self-join on one DataFrame object
    shared = tokenizer is not None
    if tokenizer is None:
        tokenizer = make_tokenizer(case['tok'])
    if case.get('default_tok'):
        import inspect
        tokenizer = inspect.signature(ssj.edit_distance_join).parameters['tokenizer'].default
    lsnap, rsnap = snapshot(ltable), snapshot(rtable)
    fb = int(bool(tokenizer.get_return_set()))
    if vh:
        vh.drain()
    raised, result = '', None
    import contextlib
    import io
    quiet = contextlib.redirect_stdout(io.StringIO()) if case.get('progress') else contextlib.nullcontext()
    quiet_err = contextlib.redirect_stderr(io.StringIO()) if case.get('progress') else contextlib.nullcontext()
    try:
        with quiet, quiet_err:
            if case.get('n_jobs', 1) != 1 and case.get('backend', 'threading') == 'threading':
                with joblib.parallel_config(backend='threading'):
                    result = call_api(ssj, case, ltable, rtable, tokenizer)
            else:
                result = call_api(ssj, case, ltable, rtable, tokenizer)
    except Exception as exc:                         # observed, judged by TLC
        raised = type(exc).__name__
        case['_exc'] = '%s: %s' % (type(exc).__name__, str(exc)[:300])
    events = vh.drain() if vh else []
    obs = {'raised': raised, 'fb': fb, 'fa': int(bool(tokenizer.get_return_set())),
           'lsame': same_as_snapshot(ltable, lsnap), 'rsame': same_as_snapshot(rtable, rsnap)}
    if raised == '' and not isinstance(result, pd.DataFrame):
        obs['raised'] = 'NotADataFrame'
        result = None
    if obs['fa'] != fb and not shared:               # do not let one case disturb the next
        tokenizer.set_return_set(bool(fb))
    return obs, result, events, (ltable, rtable)


# ------------------------------------------------------------------ abstract
def norm_cell(v):
    if v is None:
        return ('nan',)
    if isinstance(v, (bool, np.bool_)):
        return ('n', float(v))
    if isinstance(v, (int, float, np.integer, np.floating)):
        if isinstance(v, (float, np.floating)) and math.isnan(v):
            return ('nan',)
        return ('n', float(v))
    try:
        if pd.isnull(v):
            return ('nan',)
    except (TypeError, ValueError):
        pass
    return ('s', str(v))


def stable_code(v):
    """Order-independent integer code of a cell value (0 = missing)."""
    import zlib
    key = norm_cell(v)
    if key == ('nan',):
        return 0
    return 1 + zlib.crc32(repr(key).encode()) % 1000000007


class Codebook(object):
    def __init__(self):
        self.codes = {('nan',): 0}

    def code(self, v, add=True):
        key = norm_cell(v)
        if key not in self.codes:
            if not add:
                return 999999
            self.codes[key] = len(self.codes)
        return self.codes[key]


def is_missing(v):
    if v is None:
        return True
    try:
        return bool(pd.isnull(v))
    except (TypeError, ValueError):
        return False


def key_code(v):
    """Integer code of a key value: small integers stand for themselves; any other key (string, non-integral
    float, large integer) gets a stable code above 10^9 (TLC integers are 32 bit)."""
    import zlib
    if isinstance(v, (bool, np.bool_)) or v is None:
        return -1
    if isinstance(v, (int, np.integer)) and abs(int(v)) < 10 ** 9:
        return int(v)
    if isinstance(v, (float, np.floating)):
        if math.isnan(v):
            return -1
        if float(v).is_integer() and abs(v) < 10 ** 9:
            return int(v)
        return 10 ** 9 + zlib.crc32(repr(float(v)).encode()) % 1000000007
    if isinstance(v, str):
        return 10 ** 9 + zlib.crc32(('s:' + v).encode()) % 1000000007
    return 10 ** 9 + zlib.crc32(repr(v).encode()) % 1000000007


def score_code(v, meas):
    """kind 1 NaN, 2 four-decimal integer, 3 rational, 4 integer, 5 / 6 rational plus / minus one ulp, 9 other."""
    if v is None or (isinstance(v, (float, np.floating)) and math.isnan(v)):
        return [1, 0, 0]
    try:
        f = float(v)
    except (TypeError, ValueError):
        return [9, 0, 0]
    if meas in ('JACCARD', 'COSINE', 'DICE'):
        s4 = int(round(f * 10000))
        if 0 <= s4 <= 10000 and float(s4) / 10000.0 == f:
            return [2, s4, 0]
        return [9, 0, 0]
    if meas == 'OVERLAP_COEFFICIENT':
        fr = Fraction(f).limit_denominator(100000)
        base = float(fr.numerator) / float(fr.denominator)
        if base == f:
            return [3, fr.numerator, fr.denominator]
        if f == math.nextafter(base, math.inf):         # kind 5 / 6: one unit in the last place above / below
            return [5, fr.numerator, fr.denominator]
        if f == math.nextafter(base, -math.inf):
            return [6, fr.numerator, fr.denominator]
        return [9, 0, 0]
    if f.is_integer() and abs(f) < 2 ** 30:
        return [4, int(f), 0]
    return [9, 0, 0]


def dedup(attrs, key):
    out, seen = [], set()
    for a in attrs or []:
        if a == key or a in seen:
            continue
        seen.add(a)
        out.append(a)
    return out


def abstract_tables(case, ltable, rtable):
    """Token / character ids for the join values of both tables."""
    lattr, rattr = case.get('lattr', 's'), case.get('rattr', 's')
    meas = case['meas']
    vals = [(side, idx, v) for side, tab, attr in (('L', ltable, lattr), ('R', rtable, rattr))
            for idx, v in enumerate(tab[attr].tolist())]
    toks = {}
    if meas == 'EDIT_DISTANCE':
        alphabet = sorted({ch for _, _, v in vals if not is_missing(v) for ch in v})
        ids = {ch: i + 1 for i, ch in enumerate(alphabet)}
        for side, idx, v in vals:
            toks[(side, idx)] = None if is_missing(v) else [ids[ch] for ch in v]
    else:
        oracle_tok = make_tokenizer(case['tok'], return_set=True)
        raw = {}
        for side, idx, v in vals:
            raw[(side, idx)] = None if is_missing(v) else sorted(set(oracle_tok.tokenize(v)))
        vocab = sorted({t for ts in raw.values() if ts is not None for t in ts})
        ids = {t: i + 1 for i, t in enumerate(vocab)}
        for k, ts in raw.items():
            toks[k] = None if ts is None else [ids[t] for t in ts]
    return toks


def abstract(case, obs, result, tables, tid):
    ltable, rtable = tables
    meas = case['meas']
    lkey, rkey = case.get('lkey', 'id'), case.get('rkey', 'id')
    lpre, rpre = case.get('lpre', 'l_'), case.get('rpre', 'r_')
    toks = abstract_tables(case, ltable, rtable)
    book = Codebook()
    rec = {'tid': tid, 'kind': case['kind'], 'api': case.get('api', ''), 'meas': meas,
           'pairlevel': int(str(case.get('api', '')).endswith('.filter_pair')),
           'filt': case.get('filt', 'NONE'), 'op': case['op'], 't': list(case['t']),
           'ae': int(case.get('ae', 1)), 'am': int(case.get('am', 0)), 'sc': int(case.get('sc', 0)),
           'q': int(case['tok'].get('q', 2)) if case['tok']['kind'] == 'qg' else 0,
           'pad': int(case['tok'].get('pad', 1)) if case['tok']['kind'] == 'qg' else 0,
           'lkey': lkey, 'rkey': rkey, 'lpre': lpre, 'rpre': rpre,
           'lcols': list(ltable.columns), 'rcols': list(rtable.columns),
           'lout': list(case.get('lout') or []), 'rout': list(case.get('rout') or [])}
    if case.get('default_tok'):
        rec['q'], rec['pad'] = 2, 1
    for side, tab, key in (('L', ltable, lkey), ('R', rtable, rkey)):
        rows = []
        for idx, row in enumerate(tab.to_dict('records')):
            tv = toks[(side, idx)]
            rows.append({'k': key_code(row[key]), 'p': 0 if tv is None else 1,
                         'v': tv or [], 'c': [book.code(row[c]) for c in tab.columns]})
        rec[side] = rows
    o = {'raised': obs['raised'], 'fb': obs['fb'], 'fa': obs['fa'],
         'lsame': obs['lsame'], 'rsame': obs['rsame'], 'cols': [], 'ids': [], 'rows': []}
    if result is not None:
        cols = [str(c) for c in result.columns]
        o['cols'] = cols
        o['ids'] = [key_code(v) for v in result['_id'].tolist()] if '_id' in cols else [-1] * len(result)
        nl, nr = len(dedup(case.get('lout'), lkey)), len(dedup(case.get('rout'), rkey))
        lk, rk = lpre + lkey, rpre + rkey
        has_sc = '_sim_score' in cols
        recs = result.to_dict('split')['data']
        cix = {c: i for i, c in enumerate(cols)}
        shape_ok = len(cols) == 3 + nl + nr + (1 if rec['sc'] else 0) and len(set(cols)) == len(cols)
        for row in recs:
            r = {'l': key_code(row[cix[lk]]) if lk in cix else -1,
                 'r': key_code(row[cix[rk]]) if rk in cix else -1,
                 's': score_code(row[cix['_sim_score']], meas) if has_sc else [0, 0, 0],
                 'la': [], 'ra': []}
            if shape_ok:
                r['la'] = [book.code(row[3 + j], add=False) for j in range(nl)]
                r['ra'] = [book.code(row[3 + nl + j], add=False) for j in range(nr)]
            o['rows'].append(r)
    rec['obs'] = o
    return rec


# ------------------------------------------------------- rows for relational laws
def law_rows(case, result, tables, with_cells=True, keymap=None):
    """Result rows as <<l, r, k, a, b, o, n, m, cells...>> (see spec/TraceLaws.tla)."""
    if result is None:
        return None
    ltable, rtable = tables
    lkey, rkey = case.get('lkey', 'id'), case.get('rkey', 'id')
    lattr, rattr = case.get('lattr', 's'), case.get('rattr', 's')
    lpre, rpre = case.get('lpre', 'l_'), case.get('rpre', 'r_')
    meas = case['meas']
    lval = dict(zip(ltable[lkey].tolist(), ltable[lattr].tolist()))
    rval = dict(zip(rtable[rkey].tolist(), rtable[rattr].tolist()))
    if meas == 'EDIT_DISTANCE':
        oracle = make_tokenizer(case['tok'], return_set=False)
    else:
        oracle = make_tokenizer(case['tok'], return_set=True)
    cache = {}

    def toks(v):
        if v not in cache:
            cache[v] = set(oracle.tokenize(v))
        return cache[v]
    cols = [str(c) for c in result.columns]
    cix = {c: j for j, c in enumerate(cols)}
    rows = []
    skip = {'_id', lpre + lkey, rpre + rkey, '_sim_score'}
    cell_cols = [j for j, c in enumerate(cols) if c not in skip]
    for row in result.to_dict('split')['data']:
        l = row[cix[lpre + lkey]] if lpre + lkey in cix else None
        r = row[cix[rpre + rkey]] if rpre + rkey in cix else None
        lv, rv = lval.get(l), rval.get(r)
        if is_missing(lv) or is_missing(rv):
            o, n, m = -1, -1, -1
        elif meas == 'EDIT_DISTANCE':
            o, n, m = len(toks(lv) & toks(rv)), len(lv), len(rv)
        else:
            a, b = toks(lv), toks(rv)
            o, n, m = len(a & b), len(a), len(b)
        sc = score_code(row[cix['_sim_score']], meas) if '_sim_score' in cix else [0, 0, 0]
        if keymap is not None:
            out = [keymap.get(l, -1), keymap.get(r, -1)] + sc + [o, n, m]
        else:
            out = [key_code(l), key_code(r)] + sc + [o, n, m]
        if with_cells:
            out += [stable_code(row[j]) for j in cell_cols]
        rows.append(out)
    return rows
