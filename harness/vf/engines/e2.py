"""Engine E2 - token arrangements (words over {left, right, both}).

(a) every word up to length u x measure x threshold is run through the public
    filter_pair of the four filters and, at table level, through the real
    index + find_candidates; TLC judges the outcomes with spec/TraceWords.tla;
(b) table-level misses reported by TLC are escalated: the public filter_tables
    / join is run on the 2x1 table realising the word and TLC judges that call
    with spec/TraceAPI.tla (only that verdict can be a violation);
(c) every word up to length u_api is run through the public joins and
    filter_tables on its table realisation (TraceAPI).
"""
import random

from .. import lib, record, runner

THRESHOLDS = [[1, 2], [1, 3], [2, 3], [3, 4], [4, 5], [3, 5], [5, 7], [1, 4], [7, 10], [9, 10],
              [1, 1], [41, 100], [2, 7], [1, 7], [28, 100], [56, 100]]
OV_THRESHOLDS = [[1, 1], [2, 1], [3, 1], [4, 1]]
MEASURES = ['JACCARD', 'COSINE', 'DICE', 'OVERLAP']


def digits(code, n):
    out = []
    for _ in range(n):
        out.append(code % 3)
        code //= 3
    return out[::-1]


def word_strings(w):
    x = ['w%02d' % (k + 1) for k, d in enumerate(w) if d in (0, 2)]
    y = ['w%02d' % (k + 1) for k, d in enumerate(w) if d in (1, 2)]
    c = ['w%02d' % (k + 1) for k, d in enumerate(w) if d in (0, 1)]
    return ' '.join(x), ' '.join(y), ' '.join(c)


def run_batch(item):
    """All words up to length u for one (measure, threshold)."""
    bid, meas, t, u = item
    ssj = lib.load()
    import py_stringmatching as sm
    tok = sm.WhitespaceTokenizer(return_set=True)
    thr = t[0] if meas == 'OVERLAP' else t[0] / t[1]
    filters = [cls(tok, meas, thr) for cls in (ssj.SizeFilter, ssj.PrefixFilter,
                                                ssj.PositionFilter, ssj.SuffixFilter)]
    internal = True
    try:
        from py_stringsimjoin.index.position_index import PositionIndex
        from py_stringsimjoin.index.prefix_index import PrefixIndex
        from py_stringsimjoin.index.size_index import SizeIndex
        from py_stringsimjoin.utils.token_ordering import gen_token_ordering_for_tables, \
            order_using_token_ordering
    except Exception:
        internal = False
    entries = []
    for n in range(0, u + 1):
        for code in range(3 ** n):
            w = digits(code, n)
            xs, ys, cs = word_strings(w)
            e = [n, code] + [int(bool(f.filter_pair(xs, ys))) for f in filters]
            tl = [9, 9, 9]
            if internal:
                try:
                    ltab, rtab = [[xs], [cs]], [[ys]]
                    ordering = gen_token_ordering_for_tables([ltab, rtab], [0, 0], tok, meas)
                    probe = order_using_token_ordering(tok.tokenize(ys), ordering)
                    sidx = SizeIndex(ltab, 0, tok)
                    sidx.build(False)
                    pidx = PrefixIndex(ltab, 0, tok, meas, thr, ordering)
                    pidx.build(False)
                    oidx = PositionIndex(ltab, 0, tok, meas, thr, ordering)
                    oidx.build(False)
                    tl = [int(0 in filters[0].find_candidates(len(probe), sidx)),
                          int(0 in filters[1].find_candidates(probe, pidx)),
                          int(filters[2].find_candidates(probe, oidx).get(0, 0) > 0)]
                except Exception:
                    internal = False
                    tl = [9, 9, 9]
            entries.append(e + tl)
    return {'bid': bid, 'meas': meas, 't': t, 'ae': 1, 'u': u, 'entries': entries,
            'internal': internal}


def api_case(w, meas, t, what, rng):
    """2x1 table realising word w; what = join api name or filter name."""
    xs, ys, cs = word_strings(w)
    case = {'tok': {'kind': 'ws', 'rs': 1}, 'meas': meas, 't': t, 'ae': 1, 'am': 0,
            'lout': None, 'rout': None, 'n_jobs': 1, 'op': '>=',
            'L': {'cols': ['id', 's'], 'rows': [[1, xs], [2, cs]], 'index': None, 'strcols': ['s']},
            'R': {'cols': ['id', 's'], 'rows': [[11, ys]], 'index': None, 'strcols': ['s']}}
    if what in record.JOINS:
        case.update(kind='join', api=what, filt='NONE', sc=1, op=rng.choice(['>=', '>=', '>', '=']))
    else:
        case.update(kind='ftab', api=what + '.filter_tables', filt=what, sc=0)
    case['_word'] = ''.join('LRB'[d] for d in w)
    return case


JOIN_OF = {'JACCARD': 'jaccard_join', 'COSINE': 'cosine_join', 'DICE': 'dice_join',
           'OVERLAP': 'overlap_join'}


def run_api_case(item):
    tid, case = item
    obs, result, events, tables = record.execute(case)
    return record.abstract(case, obs, result, tables, tid)


# (d) edit-distance neighbourhoods: every string over a small alphabet up to a length bound paired with every string
# one edit away, through filter_pair of the four filters under EDIT_DISTANCE (bags of q-grams: long runs of one
# character give q-grams that occur three and more times).  Only a DROPPED pair can violate C04, so only the
# dropped pairs are handed to TLC (pair-level record for spec/TraceAPI.tla: MustED => not dropped).
ED_CONFIGS = [(2, 1, 1), (2, 1, 2), (3, 1, 1), (2, 0, 1), (3, 0, 1), (1, 0, 1)]          # (q, padding, threshold)
FNAMES = ['SIZE', 'PREFIX', 'POSITION', 'SUFFIX']


def neighbours(st, alphabet):
    out = set()
    for i in range(len(st) + 1):
        for ch in alphabet:
            out.add(st[:i] + ch + st[i:])
    for i in range(len(st)):
        out.add(st[:i] + st[i + 1:])
        for ch in alphabet:
            if ch != st[i]:
                out.add(st[:i] + ch + st[i + 1:])
    out.discard(st)
    return sorted(out)


def run_ed_batch(item):
    import itertools
    (q, pad, tau), alphabet, length = item
    ssj = lib.load()
    import py_stringmatching as sm
    tok = sm.QgramTokenizer(qval=q, padding=bool(pad), return_set=False)
    filters = [cls(tok, 'EDIT_DISTANCE', tau) for cls in (ssj.SizeFilter, ssj.PrefixFilter,
                                                        ssj.PositionFilter, ssj.SuffixFilter)]
    pairs, dropped = 0, []
    for tup in itertools.product(alphabet, repeat=length):
        st = ''.join(tup)
        for nb in neighbours(st, alphabet):
            pairs += 1
            for fi, f in enumerate(filters):
                try:
                    if f.filter_pair(st, nb):
                        dropped.append([st, nb, fi])
                except Exception:
                    dropped.append([st, nb, fi])          # re-executed and judged below (valid-call-raised)
    return {'pairs': pairs, 'dropped': dropped, 'cfg': [q, pad, tau]}


def ed_pair_case(q, pad, tau, st, nb, fi):
    return {'kind': 'ftab', 'api': FNAMES[fi] + '.filter_pair', 'filt': FNAMES[fi], 'meas': 'EDIT_DISTANCE',
            'op': '<=', 't': [tau, 1], 'ae': 1, 'am': 0, 'sc': 0, 'lout': None, 'rout': None, 'n_jobs': 1,
            'tok': {'kind': 'qg', 'q': q, 'pad': pad, 'rs': 0},
            'L': {'cols': ['id', 's'], 'rows': [[1, st]], 'index': None, 'strcols': ['s']},
            'R': {'cols': ['id', 's'], 'rows': [[11, nb]], 'index': None, 'strcols': ['s']}}


def run_ed_pair_case(item):
    tid, case = item
    obs, result, events, tables = record.execute_filter_pair(case)
    return record.abstract(case, obs, result, tables, tid)


def grid(tier):
    ths = THRESHOLDS if tier == 'thorough' else THRESHOLDS[:12]
    out = []
    for meas in MEASURES:
        for t in (OV_THRESHOLDS if meas == 'OVERLAP' else ths):
            out.append((meas, t))
    return out


def run(tier, seed):
    u = 8 if tier == 'quick' else 10
    u_api = 5 if tier == 'quick' else 8
    g = grid(tier)
    batches = [(i + 1, meas, t, u) for i, (meas, t) in enumerate(g)]
    runner.log('E2: %d (measure, threshold) batches x all words up to length %d on filter_pair/find_candidates' % (len(batches), u))
    recs = runner.pmap(run_batch, batches, chunk=1)
    internal = all(r['internal'] for r in recs)
    n_entries = sum(len(r['entries']) for r in recs)
    runner.log('E2: TLC judges %d word outcomes' % n_entries)
    verd, stats = runner.validate(recs, 'TraceWords', 'e2w', batch=1, tag='DONE', id_key='bid',
                                  collect=['FAIL'])
    for r in recs:
        if verd[r['bid']]['n'] != len(r['entries']):
            raise runner.MachineryError('TraceWords judged %s of %d entries' % (verd[r['bid']], len(r['entries'])))
    _fail_lines = stats['collected']['FAIL']
    fails, drift, escalate = [], [], []
    by_bid = {r['bid']: r for r in recs}
    for payload in _fail_lines:
        rec = by_bid[payload['bid']]
        e = rec['entries'][payload['idx'] - 1]
        word = ''.join('LRB'[d] for d in digits(e[1], e[0]))
        for f in payload['fails']:
            info = {'word': word, 'meas': rec['meas'], 't': rec['t'], 'entry': e}
            if f[0] == 'DRIFT':
                drift.append('E2 %s word=%s %s %s' % (f[1], word, rec['meas'], rec['t']))
            elif f[0] == 'ESC':
                escalate.append((rec['meas'], rec['t'], digits(e[1], e[0]), f[1]))
            else:
                fails.append({'prop': f[0], 'clause': f[1], 'detail': [word], 'engine': 'E2',
                              'case': {'kind': 'word', 'api': 'filter_pair', 'meas': rec['meas'],
                                       't': rec['t'], 'word': word, 'entry': e,
                                       'dropped_by': '+'.join(nm for nm, bit in zip(
                                           ('SIZE', 'PREFIX', 'POSITION', 'SUFFIX'), e[2:6]) if bit)}})
    # (c) public API on table realisations
    rng = random.Random(seed)
    api_cases = []
    for meas, t in g:
        for n in range(0, u_api + 1):
            for code in range(3 ** n):
                w = digits(code, n)
                # every word through the join; filters on a rotating basis
                api_cases.append(api_case(w, meas, t, JOIN_OF[meas], rng))
                filt = ['SIZE', 'PREFIX', 'POSITION', 'SUFFIX'][(code + n) % 4]
                api_cases.append(api_case(w, meas, t, filt, rng))
    # (b) escalations
    for meas, t, w, why in escalate[:2000]:
        for what in (JOIN_OF[meas], 'SIZE', 'PREFIX', 'POSITION'):
            c = api_case(w, meas, t, what, rng)
            c['_escalated'] = why
            api_cases.append(c)
    items = [(i + 1, c) for i, c in enumerate(api_cases)]
    runner.log('E2: %d public-API calls on table realisations (%d escalated)' % (len(items), len(escalate)))
    arecs = runner.pmap(run_api_case, items)
    averd, astats = runner.validate(arecs, 'TraceAPI', 'e2a')
    by_tid = dict(items)
    for tid, v in averd.items():
        for f in v['fails']:
            fails.append({'prop': f[0], 'clause': f[1], 'detail': f[2:], 'case': by_tid[tid], 'engine': 'E2'})
    # (d) edit-distance neighbourhoods
    maxlen = 10 if tier == 'quick' else 13
    ed_items = [(cfg, 'ab', n) for cfg in ED_CONFIGS for n in range(1, maxlen + 1)]
    ed_items += [(cfg, 'abc', n) for cfg in ED_CONFIGS for n in range(1, (6 if tier == 'quick' else 8) + 1)]
    ed_items.sort(key=lambda it: -len(it[1]) ** it[2])
    eouts = runner.pmap(run_ed_batch, ed_items, chunk=1)
    ed_pairs = sum(o['pairs'] for o in eouts)
    ed_cases = []
    for o in eouts:
        q, pad, tau = o['cfg']
        for st, nb, fi in o['dropped']:
            ed_cases.append(ed_pair_case(q, pad, tau, st, nb, fi))
    runner.log('E2: %d edit-distance neighbour pairs x 4 filters; TLC judges the %d dropped ones' % (ed_pairs, len(ed_cases)))
    if len(ed_cases) > 400000:
        raise runner.MachineryError('E2: %d dropped neighbour pairs - more than TLC is asked to judge' % len(ed_cases))
    eitems = [(i + 1, c) for i, c in enumerate(ed_cases)]
    erecs = runner.pmap(run_ed_pair_case, eitems)
    everd, estats = runner.validate(erecs, 'TraceAPI', 'e2d', batch=4000)
    e_by_tid = dict(eitems)
    for tid, v in everd.items():
        for f in v['fails']:
            fails.append({'prop': f[0], 'clause': f[1], 'detail': f[2:], 'case': e_by_tid[tid], 'engine': 'E2'})
    if escalate:
        drift.append('E2 %d table-level find_candidates outcomes differ from the envelope; public API verdicts decide' % len(escalate))
    samples = [{'word': ''.join('LRB'[d] for d in digits(e[1], e[0])), 'meas': r['meas'], 't': r['t'],
                'filter_pair_dropped[size,prefix,position,suffix]': e[2:6], 'find_candidates_kept[size,prefix,position]': e[6:9]}
               for r in recs[:2] for e in r['entries'][-3:-1]]
    return {'engine': 'E2', 'cases': n_entries + len(items) + ed_pairs * 4, 'traces': n_entries + len(arecs) + len(erecs),
            'states': stats['states'] + astats['states'] + estats['states'],
            'transitions': stats['transitions'] + astats['transitions'] + estats['transitions'],
            'fails': fails, 'drift': drift, 'samples': samples, 'exhaustive': True,
            'spec_runs': ['TraceWords: %d word outcomes in %d TLC runs' % (n_entries, stats['tlc_runs']),
                          'TraceAPI: %d calls in %d TLC runs' % (len(arecs), astats['tlc_runs']),
                          'TraceAPI (pair level): %d dropped edit-distance neighbour pairs of %d x 4 filter_pair calls' % (
                              len(erecs), ed_pairs)],
            'rule': 'all words over {L,R,B} up to length %d x %d (measure, threshold) pairs on filter_pair and '
                    'find_candidates; all words up to length %d on the public joins/filter_tables; '
                    'internal index API available: %s; every string over {a,b} up to length %d (and {a,b,c} up to %d) with '
                    'every string one edit away x %d (q, padding, threshold) on filter_pair of the four filters under '
                    'EDIT_DISTANCE' % (u, len(g), u_api, internal, maxlen, 6 if tier == 'quick' else 8, len(ED_CONFIGS))}


def replay(case):
    if case.get('kind') == 'word':
        w = ['LRB'.index(ch) for ch in case['word']]
        code = 0
        for d in w:
            code = code * 3 + d
        # single-entry batch
        full = run_batch((1, case['meas'], case['t'], len(w)))
        entry = [e for e in full['entries'] if e[0] == len(w) and e[1] == code]
        full['entries'] = entry
        out = runner.validate([full], 'TraceWords', 'replay-e2', batch=1, tag='DONE', id_key='bid',
                              collect=['FAIL'])
        fails = [{'prop': f[0], 'clause': f[1], 'detail': f[2:]} for p in out[1]['collected']['FAIL']
                 for f in p['fails']]
        return fails, full
    rec = run_ed_pair_case((1, case)) if str(case.get('api', '')).endswith('.filter_pair') else run_api_case((1, case))
    verdicts, _ = runner.validate([rec], 'TraceAPI', 'replay-e2')
    return [{'prop': f[0], 'clause': f[1], 'detail': f[2:]} for f in verdicts[1]['fails']], rec
