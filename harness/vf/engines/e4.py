"""Engine E4 - schedules and presentation (C10).

TLC enumerates the right tables (spec/GenSchedules.tla).  Each is joined /
filtered against a fixed left table with n_jobs = 1 and with every other
n_jobs value; TLC checks with spec/TraceLaws.tla that the multisets of result
rows are equal (joins, SizeFilter / OverlapFilter.filter_tables) and with
spec/TraceAPI.tla that every run is inside the property envelope (all entry
points, incl. Prefix/Position/SuffixFilter.filter_tables whose superfluous
candidates may vary).  Presentation variants (row permutation, index
relabelling, extra columns, repetition, another process with another hash
seed and the process-pool backend) are compared the same way.
"""
import copy
import json
import os
import random
import subprocess
import sys

from .. import config, lib, record, runner, tlc

LVALS_SET = ['x', 'x y', '', None, 'y', ' ', 'x y z']
RMAP_SET = {0: None, 1: '', 2: 'x', 3: 'x y'}
LVALS_ED = ['ab', 'abc', '', None, 'b', 'bc', 'abcd']
RMAP_ED = {0: None, 1: '', 2: 'ab', 3: 'abc'}
APIS = [('join', 'jaccard_join'), ('join', 'cosine_join'), ('join', 'dice_join'),
        ('join', 'overlap_coefficient_join'), ('join', 'overlap_join'), ('join', 'edit_distance_join'),
        ('ftab', 'SIZE'), ('ftab', 'OVERLAP'), ('ftab', 'PREFIX'), ('ftab', 'POSITION'), ('ftab', 'SUFFIX')]
EQ_APIS = {'jaccard_join', 'cosine_join', 'dice_join', 'overlap_coefficient_join', 'overlap_join',
           'edit_distance_join', 'SIZE', 'OVERLAP'}


def base_case(rng, rvals, kind, api):
    ed = api == 'edit_distance_join'
    lvals = LVALS_ED if ed else LVALS_SET
    rmap = RMAP_ED if ed else RMAP_SET
    case = {'kind': kind, 'ae': rng.choice([1, 1, 0]), 'am': rng.choice([0, 1]), 'n_jobs': 1,
            'lout': rng.choice([None, ['a'], ['s', 'a']]), 'rout': rng.choice([None, ['a']]),
            'tok': {'kind': 'qg', 'q': 2, 'pad': 1, 'rs': rng.choice([0, 0, 1])} if ed else {'kind': 'ws', 'rs': rng.choice([1, 0])}}
    if kind == 'join':
        meas = record.JOINS[api]
        case.update(api=api, meas=meas, filt='NONE', sc=rng.choice([1, 1, 0]))
        case['op'] = rng.choice(['<=', '<', '=']) if ed else rng.choice(['>=', '>', '='])
        case['t'] = [rng.choice([0, 1, 2]), 1] if ed else (rng.choice([[1, 1], [2, 1], [3, 2]]) if meas == 'OVERLAP'
                                                           else rng.choice([[1, 2], [1, 3], [2, 3], [1, 1]]))
    else:
        case.update(api=api + '.filter_tables', filt=api, sc=0, op='>=')
        case['tok']['rs'] = 1
        if api == 'OVERLAP':
            case.update(meas='OVERLAP', t=rng.choice([[1, 1], [2, 1], [3, 2]]), op=rng.choice(['>=', '>', '=']),
                        sc=rng.choice([0, 1]))
        else:
            case['meas'] = rng.choice(['JACCARD', 'COSINE', 'DICE', 'OVERLAP'])
            case['t'] = [1, 1] if case['meas'] == 'OVERLAP' else rng.choice([[1, 2], [1, 3], [2, 3]])
    case['L'] = {'cols': ['id', 's', 'a'], 'rows': [[j + 1, v, 100 + j] for j, v in enumerate(lvals)],
                 'index': None, 'strcols': ['s']}
    case['R'] = {'cols': ['a', 'id', 's'], 'rows': [[200 + j, 11 + j, rmap[v]] for j, v in enumerate(rvals)],
                 'index': None, 'strcols': ['s']}
    return case


def variants(rng, case, njobs_values):
    """(label, case) variants whose results must equal the base result."""
    out = []
    for nj in njobs_values:
        c = copy.deepcopy(case)
        c['n_jobs'] = nj
        out.append(('n_jobs=%d' % nj, c))
    pick = rng.random()
    c = copy.deepcopy(case)
    if pick < 0.25:
        rng.shuffle(c['R']['rows'])
        rng.shuffle(c['L']['rows'])
        out.append(('rows-permuted', c))
    elif pick < 0.5:
        if rng.random() < 0.5:
            c['L']['index'] = [5] * len(c['L']['rows'])
            c['R']['index'] = ['k%d' % (j % 2) for j in range(len(c['R']['rows']))]
        else:
            # labels repeated among the rows with a join value only; the rows with a missing value have their own
            for side in ('L', 'R'):
                sj = c[side]['cols'].index('s')
                c[side]['index'] = ['p' if r[sj] is not None else 'm%d' % j for j, r in enumerate(c[side]['rows'])]
        out.append(('index-relabelled', c))
    elif pick < 0.75:
        c['L']['cols'] = ['zz'] + c['L']['cols'] + ['yy']
        c['L']['rows'] = [[None] + r + [1.5] for r in c['L']['rows']]
        c['R']['cols'] = c['R']['cols'] + ['zz']
        c['R']['rows'] = [r + ['q'] for r in c['R']['rows']]
        out.append(('extra-columns', c))
    else:
        out.append(('repeated', c))
    # the same call made after a call with another threshold in the same process
    c2 = copy.deepcopy(case)
    other = copy.deepcopy(case)
    if case['meas'] in ('OVERLAP', 'EDIT_DISTANCE'):
        other['t'] = [case['t'][0] + 1, 1]
    else:
        other['t'] = [9, 10] if case['t'] != [9, 10] else [1, 2]
    c2['_before'] = other
    out.append(('after-call-with-other-threshold', c2))
    ed = case['meas'] == 'EDIT_DISTANCE'
    # the join switches the tokenizer's mode while it runs: set-similarity joins a bag-mode one, the edit-distance join
    # a set-mode one
    if case['kind'] == 'join' and case['tok'].get('rs', 1) == (1 if ed else 0):
        c3 = copy.deepcopy(case)
        c3['n_jobs'] = rng.choice([1, 2, 3])
        lvals, rvals = (['aaaa', 'abab', 'aab'], ['aaab', 'a', 'bbbbba']) if ed else \
            (['x x y', 'x y', 'x x x x'], ['x y y', 'x', 'y y y y x'])
        c3['_probe'] = {'L': {'cols': ['id', 's'], 'rows': [[j + 1, v] for j, v in enumerate(lvals)], 'index': None,
                              'strcols': ['s']},
                        'R': {'cols': ['id', 's'], 'rows': [[j + 11, v] for j, v in enumerate(rvals)], 'index': None,
                              'strcols': ['s']}}
        out.append(('probe-before-after', c3))
    return out


def run_group(item):
    """Base case + variants -> law records and API trace records."""
    gid, base, vars_ = item
    vh = lib.hooks_module()
    obs, res, ev, tabs = record.execute(base)
    rows0 = record.law_rows(base, res, tabs)
    out = {'gid': gid, 'laws': [], 'api': [], 'splits': []}
    # every run is judged by the envelope; of the wide groups (many rows, many jobs) only the k-job run
    with_api = True
    if not base.get('_wide'):
        out['api'].append(record.abstract(base, obs, res, tabs, 0))
    for label, c in vars_:
        if label == 'probe-before-after':
            # one bag-mode tokenizer object shared by three calls: a bag-sensitive probe (SizeFilter.filter_tables on
            # strings with repeated tokens), the call under test, the same probe again - repeating the probe in the
            # same process must give the same rows
            tok = record.make_tokenizer(c['tok'])
            probe = dict(c, kind='ftab', api='SIZE.filter_tables', filt='SIZE', meas='JACCARD', t=[1, 2], op='>=',
                         sc=0, n_jobs=1, L=c['_probe']['L'], R=c['_probe']['R'], lout=None, rout=None)
            probe.pop('_probe')
            pa = record.execute(probe, tokenizer=tok)
            cc = {k: v for k, v in c.items() if k != '_probe'}
            record.execute(cc, tokenizer=tok)
            pb = record.execute(probe, tokenizer=tok)
            tok.set_return_set(bool(c['tok'].get('rs', 1)))
            ra, rb = record.law_rows(probe, pa[1], pa[3]), record.law_rows(probe, pb[1], pb[3])
            if ra is not None and rb is not None:
                out['laws'].append({'law': 'EQ', 'prop': 'C10', 'A': ra, 'B': rb, 't': base['t'], 'label': label,
                                    'meas': base['meas'], 'op': base['op']})
            continue
        if '_before' in c:
            record.execute(c.pop('_before'))
        o2, r2, ev2, t2 = record.execute(c)
        rows = record.law_rows(c, r2, t2)
        if with_api:
            out['api'].append(record.abstract(c, o2, r2, t2, 0))
        for e in ev2:
            if e.get('ev') == 'split':
                out['splits'].append({'n': e['n'], 'k': e['k'], 'sizes': e['sizes']})
        eq_api = base['api'].split('.')[0] in EQ_APIS
        if rows0 is None or rows is None:
            continue                       # a raise is judged by TraceAPI
        if eq_api or not label.startswith('n_jobs'):
            out['laws'].append({'law': 'EQ', 'prop': 'C10', 'A': rows0, 'B': rows, 't': base['t'],
                                'label': label, 'meas': base['meas'], 'op': base['op']})
    return out


def run(tier, seed):
    cfg = 'GenSchedules_q' if tier == 'quick' else 'GenSchedules_t'
    res = tlc.run('GenSchedules', cfg, workers=1)
    gens = res.tag('GEN')
    if len(gens) != res.distinct or not gens:
        raise runner.MachineryError('GenSchedules: %d GEN for %d states' % (len(gens), res.distinct))
    groups = []
    per = 2 if tier == 'quick' else 5
    for gi, gen in enumerate(gens):
        rvals = gen['R']
        nrows = len([v for v in rvals if v != 0])
        njv = sorted(set([-20, -2, -1, 0, 2, 3, 4, 5, nrows + 2]) - {1})
        for s in range(per):
            rng = random.Random('%s|e4|%d|%d' % (seed, gi, s))
            kind, api = APIS[(gi * per + s) % len(APIS)]
            base = base_case(rng, rvals, kind, api)
            base['_src'] = '%s#%d.%d' % (cfg, gi, s)
            nj = njv if tier == 'thorough' else rng.sample(njv, min(4, len(njv)))
            groups.append((len(groups) + 1, base, variants(rng, base, nj)))
    # the split grid: right tables of n rows joined with k jobs, every (n, k) - every position of a chunk boundary,
    # more jobs than rows, more jobs than processors
    ncpu = os.cpu_count() or 4
    nwide = 0
    for n in range(1, (70 if tier == 'quick' else 130) + 1):
        ks = list(range(2, 18)) + ([ncpu + 1, 2 * ncpu + 1] if n % 10 == 0 else [])
        for k in sorted(set(ks)):
            # three entry points per cell: a set-similarity join, the edit-distance join, a filter_tables
            picks = [APIS[(n * 5 + k) % 5], APIS[5], APIS[6 + (n * 3 + k) % 5]]
            for pi, (kind, api) in enumerate(picks):
                rng = random.Random('%s|e4wide|%d|%d|%d' % (seed, n, k, pi))
                # every right row has a join value (the chunk boundaries refer to these n rows) and the last row
                # takes part in output pairs
                rvals = [1 + (j * 7 + n + (j // 4)) % 3 for j in range(n - 1)] + [3]
                base = base_case(rng, rvals, kind, api)
                base['_src'] = 'wide:n=%d:k=%d:%s' % (n, k, api)
                base['_wide'] = 1      # the k-job run is judged by the envelope as well (missed / spurious pairs, C01-C04)
                base['L']['rows'] = base['L']['rows'][:3] + base['L']['rows'][6:]      # x | x y | '' | x y z
                c = copy.deepcopy(base)
                c['n_jobs'] = k
                groups.append((len(groups) + 1, base, [('n_jobs=%d' % k, c)]))
                nwide += 1
    runner.log('E4: %d groups (base call + n_jobs / presentation variants) from %d TLC-enumerated right tables, '
               '%d of them on the (rows, jobs) grid' % (len(groups), len(gens), nwide))
    outs = runner.pmap(run_group, groups)
    laws, apis, splits = [], [], []
    by_tid = {}
    gmap = {g[0]: g for g in groups}
    for o in outs:
        for l in o['laws']:
            l['tid'] = len(laws) + 1
            by_tid[('law', l['tid'])] = (gmap[o['gid']], l['label'])
            laws.append(l)
        for a in o['api']:
            a['tid'] = len(apis) + 1
            by_tid[('api', a['tid'])] = (gmap[o['gid']], '')
            apis.append(a)
        for s in o['splits']:
            splits.append({'tid': len(splits) + 1, 'law': 'SPLIT', 'prop': 'C10', 'A': [], 'B': [], 't': [1, 1],
                           'n': s['n'], 'k': s['k'], 'sizes': s['sizes']})
    # another interpreter: different hash seed, process-pool backend
    rng = random.Random(seed)
    narrow = [g for g in groups if not g[1].get('_wide')]
    # (entry points whose result may legitimately depend on the chunking - superfluous candidates of Prefix / Position /
    # Suffix filter_tables - are not compared across job counts)
    narrow_eq = [g for g in narrow if g[1]['api'].split('.')[0] in EQ_APIS]
    sample = rng.sample(narrow_eq, min(len(narrow_eq), 12 if tier == 'quick' else 60))
    sub_cases = []
    for g in sample:
        c = copy.deepcopy(g[1])
        c['n_jobs'] = 2
        c['backend'] = 'loky'
        sub_cases.append(c)
    src = os.path.join(config.workdir('traces'), '%d-e4-sub-in.json' % os.getpid())
    dst = os.path.join(config.workdir('traces'), '%d-e4-sub-out.json' % os.getpid())
    json.dump(sub_cases, open(src, 'w'))
    env = dict(os.environ, PYTHONHASHSEED=str(1 + seed % 1000), PYTHONPATH=os.path.join(config.VERIF, 'harness'))
    proc = subprocess.run([sys.executable, '-W', 'ignore', '-m', 'vf.subrun', src, dst], env=env,
                          stdout=subprocess.PIPE, stderr=subprocess.STDOUT, timeout=1800)
    if proc.returncode != 0:
        raise runner.MachineryError('E4 subprocess failed: %s' % proc.stdout.decode()[-2000:])
    sub_out = json.load(open(dst))
    base_rows = runner.pmap(_rows_only, [g[1] for g in sample], nproc=1)
    for g, c, so, br in zip(sample, sub_cases, sub_out, base_rows):
        if so['rows'] is None or br is None:
            continue
        if g[1]['api'].split('.')[0] not in EQ_APIS:
            continue          # Prefix / Position / Suffix filter_tables: superfluous candidates may vary with the chunking
        l = {'tid': len(laws) + 1, 'law': 'EQ', 'prop': 'C10', 'A': br, 'B': so['rows'], 't': c['t'],
             'label': 'other-process-hashseed-loky', 'meas': c['meas'], 'op': c['op']}
        by_tid[('law', l['tid'])] = (g, l['label'])
        laws.append(l)
    # every sampled call once more in a FRESH interpreter (nothing was called before it there) and compared with the
    # result obtained in a long-lived worker process after hundreds of other calls
    import multiprocessing as mp
    fresh = rng.sample(narrow, min(len(narrow), 160 if tier == 'quick' else 800))
    with mp.get_context('spawn').Pool(config.NCPU, maxtasksperchild=1) as pool:
        fresh_rows = pool.map(_rows_only, [g[1] for g in fresh], chunksize=1)
    worn_rows = runner.pmap(_rows_only, [g[1] for g in fresh])
    for g, fr, wr in zip(fresh, fresh_rows, worn_rows):
        if fr is None or wr is None:
            continue
        l = {'tid': len(laws) + 1, 'law': 'EQ', 'prop': 'C10', 'A': fr, 'B': wr, 't': g[1]['t'],
             'label': 'fresh-interpreter', 'meas': g[1]['meas'], 'op': g[1]['op']}
        by_tid[('law', l['tid'])] = (g, l['label'])
        laws.append(l)
    runner.log('E4: TLC judges %d EQ laws, %d API traces, %d split events' % (len(laws), len(apis), len(splits)))
    lverd, lst = runner.validate(laws, 'TraceLaws', 'e4l', batch=800)
    averd, ast = runner.validate(apis, 'TraceAPI', 'e4a')
    sverd, sst = runner.validate(splits, 'TraceLaws', 'e4s', batch=5000)
    fails, drift = [], []
    for tid, v in lverd.items():
        g, label = by_tid[('law', tid)]
        for f in v['fails']:
            case = dict(g[1], _variant=label)
            if label == 'probe-before-after':
                case['_vcase'] = [vc for lb, vc in g[2] if lb == label][0]
            fails.append({'prop': f[0], 'clause': f[1] + ':' + label.split('=')[0], 'detail': f[2:] + [label],
                          'case': case, 'engine': 'E4'})
    for tid, v in averd.items():
        g, _ = by_tid[('api', tid)]
        for f in v['fails']:
            fails.append({'prop': f[0], 'clause': f[1], 'detail': f[2:], 'case': g[1], 'engine': 'E4'})
    for tid, v in sverd.items():
        for f in v['fails']:
            drift.append('E4 split_table %s' % (f,))
    samples = [{'base': {k: g[1].get(k) for k in ('api', 'meas', 'op', 't', 'am', 'ae', '_src')},
                'R': [r[2] for r in g[1]['R']['rows']], 'variants': [v[0] for v in g[2]]} for g in sample[:2]]
    return {'engine': 'E4', 'cases': len(apis) + len(sub_cases), 'traces': len(laws) + len(apis) + len(splits),
            'states': res.distinct + lst['states'] + ast['states'] + sst['states'],
            'transitions': lst['transitions'] + ast['transitions'] + sst['transitions'],
            'fails': fails, 'drift': drift[:20], 'samples': samples, 'exhaustive': True,
            'spec_runs': ['GenSchedules: %d right tables' % res.distinct,
                          'TraceLaws EQ: %d, TraceAPI: %d, split events: %d' % (len(laws), len(apis), len(splits))],
            'rule': 'every right table of up to %s rows over {missing, empty, 1 token, 2 tokens} (TLC) x rotating entry '
                    'points x n_jobs in {-20,-2,-1,0,2..5,rows+2} (threading backend) + presentation variants + '
                    'the grid of %d (rows 1..%d, jobs 2..17 and beyond the processor count) combinations + '
                    '%d calls in another interpreter (other PYTHONHASHSEED, process-pool backend)' % (
                        '5' if tier == 'quick' else '6', nwide, 70 if tier == 'quick' else 130, len(sub_cases))}


def _rows_only(case):
    os.environ[config.HOOK_GUARD] = '1'
    obs, res, ev, tabs = record.execute(case)
    return record.law_rows(case, res, tabs)


def replay(case):
    label = case.get('_variant', '')
    base = {k: v for k, v in case.items() if k not in ('_variant', '_vcase')}
    if label == 'probe-before-after':
        out = run_group((1, base, [(label, copy.deepcopy(case['_vcase']))]))
        laws = [l for l in out['laws'] if l['label'] == label]
        for j, l in enumerate(laws):
            l['tid'] = j + 1
        v, _ = runner.validate(laws, 'TraceLaws', 'replay-e4p')
        return [{'prop': f[0], 'clause': f[1] + ':' + label, 'detail': f[2:]} for x in v.values() for f in x['fails']], \
            {'laws': len(laws)}
    rec = None
    fails = []
    obs, res, ev, tabs = record.execute(base)
    arec = record.abstract(base, obs, res, tabs, 1)
    verdicts, _ = runner.validate([arec], 'TraceAPI', 'replay-e4')
    fails += [{'prop': f[0], 'clause': f[1], 'detail': f[2:]} for f in verdicts[1]['fails']]
    if label.startswith('n_jobs='):
        c = copy.deepcopy(base)
        c['n_jobs'] = int(label.split('=')[1])
        o2, r2, e2, t2 = record.execute(c)
        law = {'tid': 1, 'law': 'EQ', 'prop': 'C10', 'A': record.law_rows(base, res, tabs) or [],
               'B': record.law_rows(c, r2, t2) or [], 't': base['t'], 'meas': base['meas'], 'op': base['op']}
        v, _ = runner.validate([law], 'TraceLaws', 'replay-e4l')
        fails += [{'prop': f[0], 'clause': f[1] + ':n_jobs', 'detail': f[2:]} for f in v[1]['fails']]
    return fails, arec
