"""Engine E6 - call histories (C12).

TLC enumerates every history over the call alphabet of spec/Session.tla (and
model-checks the switch / restore discipline on the abstract session).  The
harness replays each history on the real library with shared tokenizer and
table objects, recording after every call the modes of all tokenizer objects,
whether the inputs are unchanged, and the result; every call is also executed
once in isolation in a fresh interpreter.  TLC judges the histories with
spec/TraceSession.tla.
"""
import inspect
import multiprocessing as mp
import os
import random

import numpy as np
import pandas as pd

from .. import config, lib, record, runner, tlc

NCALLS = 29
NAMES = {1: 'jaccard_join(S)', 2: 'jaccard_join(B,allow_missing)', 3: 'cosine_join(B,>)', 4: 'dice_join(B)',
         5: 'overlap_join(B)', 6: 'overlap_coefficient_join(B)', 7: 'edit_distance_join(default tokenizer)',
         8: 'edit_distance_join(Q set-mode qgram)', 9: 'jaccard_join(B) rejected: threshold 1.5',
         10: 'overlap_join(B) rejected: rtable not a DataFrame', 11: 'edit_distance_join(default) rejected: op >=',
         12: 'SizeFilter(S,COSINE,0.5).filter_tables', 13: 'OverlapFilter(B,1).filter_tables',
         14: 'apply_matcher(S)', 15: 'SizeFilter(S,JACCARD,0.5).filter_tables', 16: 'profile_table_for_join',
         17: 'dataframe_column_to_str(inplace=False)',
         18: 'dice_join(B) on a right table whose join values are all missing',
         19: 'jaccard_join(S) with threshold 0.9', 20: 'PrefixFilter(qgram q=2, EDIT_DISTANCE, 1).filter_tables',
         21: 'PrefixFilter(qgram q=3, EDIT_DISTANCE, 1).filter_tables',
         22: 'overlap_join(Q set-mode qgram)', 23: 'OverlapFilter(S,1).filter_candset on s',
         24: 'OverlapFilter(S,1).filter_candset on s2', 25: 'jaccard_join(Q set-mode qgram)',
         26: 'PositionFilter(qgram q=2, EDIT_DISTANCE, 1).filter_tables',
         27: 'PositionFilter(qgram q=3, EDIT_DISTANCE, 1).filter_tables',
         28: 'PrefixFilter(Q set-mode qgram, EDIT_DISTANCE, 1).filter_tables',
         29: 'PositionFilter(Q set-mode qgram, EDIT_DISTANCE, 1).filter_tables'}


def fresh_objects():
    import py_stringmatching as sm
    ssj = lib.load()
    # row 6 / 14: strings of more than 48 characters with repeated words and repeated 2-grams (set and bag
    # tokenisations differ); s2: a second string column for calls on another attribute of the same objects
    long_l, long_r = ('ab ab cd ' * 6).strip(), ('ab cd cd ' * 6).strip()
    # row 7 / 15: the same SET of 2-grams but bags of different size (banana / bananana)
    L = pd.DataFrame({'id': pd.Series([1, 2, 3, 4, 5, 6, 7], dtype='int64'),
                      's': pd.Series(['a b c', 'b c', None, '', 'b', long_l, 'banana'], dtype=object),
                      'n': pd.Series([10, 20, 30, 40, 50, 60, 70], dtype='int64'),
                      's2': pd.Series(['b d', 'a', 'x y', None, 'a b', long_r, 'b'], dtype=object)})
    R = pd.DataFrame({'id': pd.Series([11, 12, 13, 14, 15], dtype='int64'),
                      's': pd.Series(['a b', '', 'b c d', long_r, 'bananana'], dtype=object),
                      's2': pd.Series(['x', 'a b', 'd', 'ab ab', 'b d'], dtype=object)})
    C = pd.DataFrame({'_id': [0, 1, 2, 3, 4, 5, 6], 'l_id': [1, 1, 2, 4, 3, 6, 6], 'r_id': [11, 13, 13, 12, 11, 14, 11]})
    toks = {'S': sm.WhitespaceTokenizer(return_set=True), 'B': sm.WhitespaceTokenizer(return_set=False),
            'D': inspect.signature(ssj.edit_distance_join).parameters['tokenizer'].default,
            'Q': sm.QgramTokenizer(qval=2, return_set=True)}
    return ssj, L, R, C, toks


def do_call(c, ssj, L, R, C, toks):
    import py_stringmatching as sm
    kw = dict(show_progress=False)
    k = ('id', 'id', 's', 's')
    if c == 1:
        return ssj.jaccard_join(L, R, *k, toks['S'], 0.5, **kw)
    if c == 2:
        return ssj.jaccard_join(L, R, *k, toks['B'], 0.5, allow_missing=True, l_out_attrs=['n'], **kw)
    if c == 3:
        return ssj.cosine_join(L, R, *k, toks['B'], 0.6, '>', **kw)
    if c == 4:
        return ssj.dice_join(L, R, *k, toks['B'], 0.5, **kw)
    if c == 5:
        return ssj.overlap_join(L, R, *k, toks['B'], 1, **kw)
    if c == 6:
        return ssj.overlap_coefficient_join(L, R, *k, toks['B'], 0.5, **kw)
    if c == 7:
        return ssj.edit_distance_join(L, R, *k, 2, **kw)
    if c == 8:
        return ssj.edit_distance_join(L, R, *k, 2, tokenizer=toks['Q'], **kw)
    if c == 9:
        return ssj.jaccard_join(L, R, *k, toks['B'], 1.5, **kw)
    if c == 10:
        return ssj.overlap_join(L, R.values.tolist(), *k, toks['B'], 1, **kw)
    if c == 11:
        return ssj.edit_distance_join(L, R, *k, 2, '>=', **kw)
    if c == 12:
        return ssj.SizeFilter(toks['S'], 'COSINE', 0.5).filter_tables(L, R, *k, **kw)
    if c == 13:
        return ssj.OverlapFilter(toks['B'], 1).filter_tables(L, R, *k, out_sim_score=True, **kw)
    if c == 14:
        return ssj.apply_matcher(C, 'l_id', 'r_id', L, R, *k, toks['S'], sm.Jaccard().get_raw_score, 0.3, **kw)
    if c == 15:
        return ssj.SizeFilter(toks['S'], 'JACCARD', 0.5).filter_tables(L, R, *k, **kw)
    if c == 16:
        return ssj.profile_table_for_join(L)
    if c == 17:
        return ssj.dataframe_column_to_str(L, 'n', inplace=False)
    if c == 18:
        R0 = pd.DataFrame({'id': R['id'], 's': pd.Series([None] * len(R), dtype=object)})
        return ssj.dice_join(L, R0, *k, toks['B'], 0.5, **kw)
    if c == 19:
        return ssj.jaccard_join(L, R, *k, toks['S'], 0.9, **kw)
    if c in (20, 21, 26, 27):
        # the same token counts under q = 2 and q = 3 (strings one character longer): a value memoised without q is stale
        big = c in (21, 27)
        qt = sm.QgramTokenizer(qval=3 if big else 2, padding=False, return_set=False)
        L2 = pd.DataFrame({'id': [1, 2], 's': pd.Series(['abcdefgh', 'abcdefg'] if big else ['abcdefg', 'abcdef'], dtype=object)})
        R2 = pd.DataFrame({'id': [11, 12], 's': pd.Series(['abcXefgh', 'abXdefg'] if big else ['abcXefg', 'abXdef'], dtype=object)})
        cls = ssj.PrefixFilter if c in (20, 21) else ssj.PositionFilter
        return cls(qt, 'EDIT_DISTANCE', 1).filter_tables(L2, R2, *k, **kw)
    if c == 22:
        return ssj.overlap_join(L, R, *k, toks['Q'], 3, **kw)
    if c == 23:
        return ssj.OverlapFilter(toks['S'], 1).filter_candset(C, 'l_id', 'r_id', L, R, 'id', 'id', 's', 's', **kw)
    if c == 24:
        return ssj.OverlapFilter(toks['S'], 1).filter_candset(C, 'l_id', 'r_id', L, R, 'id', 'id', 's2', 's2', **kw)
    if c == 25:
        return ssj.jaccard_join(L, R, *k, toks['Q'], 0.8, **kw)
    if c in (28, 29):
        # an edit-distance filter handed the SHARED set-mode q-gram tokenizer: the index must not leave it in bag mode
        cls = ssj.PrefixFilter if c == 28 else ssj.PositionFilter
        return cls(toks['Q'], 'EDIT_DISTANCE', 1).filter_tables(L, R, *k, **kw)
    raise ValueError(c)


def df_rows(df):
    if not isinstance(df, pd.DataFrame):
        return [[record.stable_code(repr(type(df)))]]
    cols = [c for c in df.columns if c != '_id']
    rows = [[record.stable_code(c) for c in cols]]
    data = df[cols].reset_index().to_dict('split')['data'] if df.index.name else df[cols].to_dict('split')['data']
    for row in data:
        rows.append([record.stable_code(v) for v in row])
    return rows


def step(c, ssj, L, R, C, toks):
    snaps = [record.snapshot(d) for d in (L, R, C)]
    order = ['S', 'B', 'D', 'Q']
    before = [int(bool(toks[k].get_return_set())) for k in order]
    raised, rows = '', []
    try:
        rows = df_rows(do_call(c, ssj, L, R, C, toks))
    except Exception as exc:
        raised = type(exc).__name__
    after = [int(bool(toks[k].get_return_set())) for k in order]
    same = int(all(record.same_as_snapshot(d, s) for d, s in zip((L, R, C), snaps)))
    return {'call': c, 'raised': raised, 'rows': rows, 'before': before, 'after': after, 'same': same}


def run_history(item):
    tid, hist = item
    ssj, L, R, C, toks = fresh_objects()
    steps = []
    for c in hist:
        steps.append(step(c, ssj, L, R, C, toks))
    # the shared default tokenizer must not carry a wrong mode into the next history
    toks['D'].set_return_set(False)
    return {'tid': tid, 'steps': steps}


def _iso_call(c):
    os.environ[config.HOOK_GUARD] = '1'
    ssj, L, R, C, toks = fresh_objects()
    s = step(c, ssj, L, R, C, toks)
    return {'call': c, 'raised': s['raised'], 'rows': s['rows']}


def isolated():
    ctx = mp.get_context('spawn')
    with ctx.Pool(min(config.NCPU, NCALLS), maxtasksperchild=1) as pool:
        return pool.map(_iso_call, list(range(1, NCALLS + 1)), chunksize=1)


def run(tier, seed):
    cfg = 'Session_q' if tier == 'quick' else 'Session_t'
    runner.log('E6: TLC model-checks the session discipline and enumerates the histories')
    res = tlc.run('Session', cfg, workers=1, heap='4g', timeout=7200)
    hists = [g['h'] for g in res.tag('GEN')]
    if not hists:
        raise runner.MachineryError('Session: no histories generated')
    iso = isolated()
    iso_path = tlc.write_json(iso, 'e6-iso.json')
    items = [(j + 1, h) for j, h in enumerate(hists)]
    runner.log('E6: replaying %d histories (%d calls) on the library' % (len(items), sum(len(h) for h in hists)))
    recs = runner.pmap(run_history, items)
    verdicts, stats = runner.validate(recs, 'TraceSession', 'e6', batch=max(200, len(recs) // 16 + 1),
                                      extra_env={'ISO_FILE': iso_path})
    by_tid = dict(items)
    fails = []
    for tid, v in verdicts.items():
        for f in v['fails']:
            h = by_tid[tid]
            fails.append({'prop': f[0], 'clause': f[1], 'detail': f[2:] + [[NAMES[c] for c in h]],
                          'case': {'kind': 'history', 'api': NAMES[f[3]], 'meas': '', 'history': h,
                                   'names': [NAMES[c] for c in h]}, 'engine': 'E6'})
    rng = random.Random(seed)
    samples = [{'history': [NAMES[c] for c in h]} for _, h in rng.sample(items, 3)]
    return {'engine': 'E6', 'cases': sum(len(h) for h in hists), 'traces': len(recs),
            'states': res.distinct + stats['states'], 'transitions': res.generated + stats['transitions'],
            'fails': fails, 'samples': samples, 'exhaustive': True,
            'model_checks': ['Session (%s): %d distinct states, invariants ModesRestored, NoLeak' % (cfg, res.distinct)],
            'spec_runs': ['Session: %d histories' % len(hists), 'TraceSession: %d histories judged' % len(recs)],
            'rule': 'every call history up to length %d over an alphabet of %d calls (joins, three rejected calls, '
                    'filters, matcher, profiler, converter) sharing four tokenizer objects and the tables; each call also '
                    'run in isolation in a fresh interpreter' % (3 if tier == 'quick' else 4, NCALLS)}


def replay(case):
    rec = run_history((1, case['history']))
    iso_path = tlc.write_json(isolated(), 'e6-iso-replay.json')
    verdicts, _ = runner.validate([rec], 'TraceSession', 'replay-e6', extra_env={'ISO_FILE': iso_path})
    return [{'prop': f[0], 'clause': f[1], 'detail': f[2:]} for f in verdicts[1]['fails']], rec
