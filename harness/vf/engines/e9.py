"""Engine E9 - scale and relational laws (C07, C13, C14; depth for C01-C03).

Seeded random tables (skewed token frequencies, duplicates, unicode, several
tokenizers, bag tokenizers coerced to sets, index labels, extra columns) and
the bundled person / books data.  Per group of related calls TLC checks the
laws of spec/TraceLaws.tla (transposition, threshold refinement, operator
partition, join = filter_tables + apply_matcher, Position within Prefix and
Size); the joins on the random tables are also validated against the
envelope of spec/TraceAPI.tla.
"""
import copy
import random

import pandas as pd

from .. import lib, record, runner

WORDS = ['al', 'be', 'ga', 'de', 'ep', 'ze', 'et', 'th', 'io', 'ka', 'la', 'mu', 'nu', 'xi', 'om', 'pi',
         'ro', 'si', 'ta', 'up', 'ph', 'ch', 'ps', 'og', 'été', 'über', '中', 'αβ', 'naïve', 'z9']
TOKS = [{'kind': 'ws', 'rs': 1}, {'kind': 'ws', 'rs': 0}, {'kind': 'qg', 'q': 2, 'pad': 1, 'rs': 1},
        {'kind': 'qg', 'q': 3, 'pad': 0, 'rs': 0}, {'kind': 'delim', 'delims': [','], 'rs': 1},
        {'kind': 'alpha', 'rs': 1}, {'kind': 'alnum', 'rs': 0}]
SET_APIS = ['jaccard_join', 'cosine_join', 'dice_join', 'overlap_coefficient_join', 'overlap_join']
THS = [[1, 2], [1, 3], [2, 3], [3, 10], [7, 10], [4, 5], [28, 100], [3, 5], [1, 4], [9, 10], [1, 1], [45, 100]]


def rand_string(rng, tok, maxtok):
    n = rng.choice([0, 1, 1, 2, 2, 3, 3, 4, 5, 6, maxtok])
    # skewed: low indices far more frequent
    ws = [WORDS[min(len(WORDS) - 1, int(rng.expovariate(0.25)))] for _ in range(n)]
    sep = ',' if tok['kind'] == 'delim' else ' '
    s = sep.join(ws)
    if rng.random() < 0.05:
        s = rng.choice(['', ' ', sep])
    return s


def rand_table(rng, side, nrows, tok, maxtok):
    rows, pool = [], []
    for j in range(nrows):
        r = rng.random()
        if r < 0.08:
            v = None
        elif r < 0.2 and pool:
            v = rng.choice(pool)                      # duplicate value
        elif r < 0.3 and pool:
            base = rng.choice(pool).split(',' if tok['kind'] == 'delim' else ' ')
            rng.shuffle(base)
            v = (',' if tok['kind'] == 'delim' else ' ').join(base[:max(1, len(base) - 1)])   # near duplicate
        else:
            v = rand_string(rng, tok, maxtok)
        if v is not None:
            pool.append(v)
        rows.append([(1000 if side == 'R' else 0) + 3 * j + 1, v, (j * 7) % 5, None if j % 4 == 0 else 'c%d' % j])
    idx = rng.choice([None, None, [5] * nrows, list(range(nrows, 0, -1)), ['i%d' % (j % 3) for j in range(nrows)],
                      # labels repeated among the rows with a join value only
                      [('p%d' % (j % 2)) if rows[j][1] is not None else 'm%d' % j for j in range(nrows)]])
    return {'cols': ['id', 's', 'a', 'b'], 'rows': rows, 'index': idx, 'strcols': ['s', 'b'],
            'sdtype': rng.choice(['object', 'str'])}


def ed_table(rng, side, nrows):
    rows = []
    alphabet = rng.choice(['ab', 'abc', 'abé'])
    for j in range(nrows):
        if rng.random() < 0.07:
            v = None
        else:
            v = ''.join(rng.choice(alphabet) for _ in range(rng.choice([0, 1, 2, 3, 3, 4, 4, 5, 6])))
        rows.append([(1000 if side == 'R' else 0) + j + 1, v, j % 3, None])
    return {'cols': ['id', 's', 'a', 'b'], 'rows': rows, 'index': None, 'strcols': ['s', 'b'],
            'sdtype': rng.choice(['object', 'str'])}


def sim_function(meas):
    import py_stringmatching as sm
    return {'JACCARD': sm.Jaccard().get_raw_score, 'COSINE': sm.Cosine().get_raw_score,
            'DICE': sm.Dice().get_raw_score, 'OVERLAP_COEFFICIENT': sm.OverlapCoefficient().get_raw_score,
            'OVERLAP': overlap_fn, 'EDIT_DISTANCE': sm.Levenshtein().get_raw_score}[meas]


def overlap_fn(a, b):
    return len(set(a) & set(b))


def keymaps(case):
    keys = [r[case['L']['cols'].index(case.get('lkey', 'id'))] for r in case['L']['rows']] + \
           [r[case['R']['cols'].index(case.get('rkey', 'id'))] for r in case['R']['rows']]
    if all(isinstance(k, int) and not isinstance(k, bool) for k in keys):
        return None
    return {k: j + 1 for j, k in enumerate(sorted(set(keys), key=str))}


def rows_of(case, keymap=None):
    obs, res, ev, tabs = record.execute(case)
    rows = record.law_rows(case, res, tabs, with_cells=False, keymap=keymap)
    return obs, res, tabs, rows


def run_group(item):
    """One group of related calls on one pair of tables."""
    gid, g = item
    ssj = lib.load()
    base = g['case']
    meas, ed = base['meas'], base['meas'] == 'EDIT_DISTANCE'
    km = keymaps(base)
    ops = ['<=', '<', '='] if ed else ['>=', '>', '=']
    out = {'gid': gid, 'laws': [], 'api': []}
    res_by_op = {}
    if g.get('prewarm'):
        # a call of the same entry point on the same data made first in this process, with another q-gram length
        # (edit distance) or another threshold: whatever it leaves behind must not change the calls judged below
        pc = dict(base, op=ops[0])
        if ed:
            q0 = base['tok'].get('q', 2)
            pc['tok'] = dict(base['tok'], q=(q0 - 1 if (q0 > 1 and gid % 4 < 3) else q0 + 1))
        else:
            pc['t'] = g['t2']
        try:
            record.execute(pc)
        except Exception:
            pass
    for op in ops:
        c = dict(base, op=op)
        obs, res, tabs, rows = rows_of(c, km)
        res_by_op[op] = rows
        if g.get('validate') and km is None:
            out['api'].append(record.abstract(c, obs, res, tabs, 0))
    A = res_by_op[ops[0]]

    def law(name, prop, **kw):
        d = {'law': name, 'prop': prop, 'meas': meas, 'op': ops[0], 't': base['t'], 'A': A or [], 'B': []}
        d.update(kw)
        out['laws'].append(d)
    if all(v is not None for v in res_by_op.values()):
        law('PARTITION', 'C13', B=res_by_op[ops[1]], C=res_by_op[ops[2]])
    # refinement
    c2 = dict(base, op=ops[0], t=g['t2'])
    _, _, _, rows2 = rows_of(c2, km)
    if A is not None and rows2 is not None and not (ed and not base.get('sc', 1)):   # no distance without a score
        law('REFINE', 'C13', B=rows2, t2=g['t2'])
    # transposition
    ct = dict(base, op=ops[0], L=base['R'], R=base['L'], lout=base.get('rout'), rout=base.get('lout'),
              lkey=base.get('rkey', 'id'), rkey=base.get('lkey', 'id'),
              lattr=base.get('rattr', 's'), rattr=base.get('lattr', 's'))
    _, _, _, rowst = rows_of(ct, km)
    if A is not None and rowst is not None:
        # counts n, m are swapped in the transposed run; only the core is compared
        law('TRANSPOSE', 'C13', B=rowst)
    # join = filter_tables then apply_matcher
    lt, rt = record.make_df(base['L'], base.get('lattr', 's')), record.make_df(base['R'], base.get('rattr', 's'))
    if base.get('same_object'):
        rt = lt
    tok = record.make_tokenizer(base['tok'], return_set=(not ed))
    thr = record.threshold_value(base)
    lk, rk = base.get('lkey', 'id'), base.get('rkey', 'id')
    la, ra = base.get('lattr', 's'), base.get('rattr', 's')
    fname = g['first_stage']
    pipe_op = g.get('pipe_op', ops[0])
    try:
        if fname == 'OVERLAP':
            flt = ssj.OverlapFilter(tok, 1, '>=', allow_missing=bool(base.get('am', 0)))
        else:
            fthr = thr
            fmeas = meas
            if meas == 'OVERLAP_COEFFICIENT':
                flt = ssj.OverlapFilter(tok, 1, '>=', allow_missing=bool(base.get('am', 0)))
            else:
                flt = getattr(ssj, record.FILTERS[fname])(tok, fmeas, fthr, allow_empty=bool(base.get('ae', 1)),
                                                         allow_missing=bool(base.get('am', 0)))
        cand = flt.filter_tables(lt, rt, lk, rk, la, ra, n_jobs=g.get('n_jobs_f', 1), show_progress=False)
        M = ssj.apply_matcher(cand, 'l_' + lk, 'r_' + rk, lt, rt, lk, rk, la, ra,
                              None if ed else tok, sim_function(meas), thr, pipe_op,
                              allow_missing=bool(base.get('am', 0)), n_jobs=g.get('n_jobs_m', 1),
                              out_sim_score=True, show_progress=False)
        if ed or meas in ('JACCARD', 'COSINE', 'DICE'):
            pass
        mcase = dict(base, sc=1, lpre='l_', rpre='r_', lout=None, rout=None)
        if meas in ('JACCARD', 'COSINE', 'DICE') and len(M):
            M = M.copy()
            M['_sim_score'] = [round(v, 4) if v == v else v for v in M['_sim_score'].tolist()]
        rowsM = record.law_rows(mcase, M, (lt, rt), with_cells=False, keymap=km)
        cj = dict(base, op=pipe_op)
        _, _, _, rowsJ = rows_of(cj, km)
        if rowsJ is not None:
            if not base.get('sc', 1):                 # the join reports no score: key pairs only
                rowsM = [r[:2] + [0, 0, 0] + r[5:] for r in rowsM]
            out['laws'].append({'law': 'PIPE', 'prop': 'C07', 'meas': meas, 'op': pipe_op, 't': base['t'],
                                'A': rowsJ, 'B': rowsM, 'first': fname})
    except Exception as exc:
        out['laws'].append({'law': 'EQ', 'prop': 'C07', 'meas': meas, 'op': ops[0], 't': base['t'],
                            'A': [[0, 0, 0, 0, 0, 0, 0, 0]], 'B': [], 'first': fname,
                            'note': 'pipeline raised %s: %s' % (type(exc).__name__, str(exc)[:200])})
    # Position within Prefix and Size (C14), same parameters, one job
    if meas in ('JACCARD', 'COSINE', 'DICE', 'OVERLAP', 'EDIT_DISTANCE'):
        frows = {}
        kjobs = [1, 1, 2, 3][gid % 4]          # the same number of jobs for the three filters
        for f in ('POSITION', 'PREFIX', 'SIZE'):
            cf = dict(base, kind='ftab', api=f + '.filter_tables', filt=f, op='<=' if ed else '>=', sc=0, n_jobs=kjobs,
                      tok=dict(base['tok'], rs=0 if ed else 1))
            fobs, fres, ftabs, frows[f] = rows_of(cf, km)
            if g.get('validate') and km is None and g['src'].startswith(('random', 'selfjoin', 'scoretie')):
                out['api'].append(record.abstract(cf, fobs, fres, ftabs, 0))      # C04 / C14 envelope of the filter run
        # filter_pair of the four filters on every pair of the two tables (C04 at the pair level: the pair-level
        # token order differs from the table-level one; for edit distance the tokens are bags)
        if g.get('validate') and km is None and g['src'].startswith('random') and (ed or gid % 3 == 0 or meas == 'OVERLAP'):
            for f in ('SIZE', 'PREFIX', 'POSITION', 'SUFFIX') + (('OVERLAP',) if meas == 'OVERLAP' else ()):
                cp = dict(base, kind='ftab', api=f + '.filter_pair', filt=f, op='<=' if ed else '>=', sc=0, n_jobs=1,
                          am=0, lout=None, rout=None, tok=dict(base['tok'], rs=0 if ed else 1))
                pobs, pres, _, ptabs = record.execute_filter_pair(cp)
                out['api'].append(record.abstract(cp, pobs, pres, ptabs, 0))
        if all(v is not None for v in frows.values()):
            out['laws'].append({'law': 'KEYSUB', 'prop': 'C14', 'meas': meas, 'op': '>=', 't': base['t'],
                                'A': frows['POSITION'], 'B': frows['PREFIX'], 'first': 'POSITION<=PREFIX'})
            out['laws'].append({'law': 'KEYSUB', 'prop': 'C14', 'meas': meas, 'op': '>=', 't': base['t'],
                                'A': frows['POSITION'], 'B': frows['SIZE'], 'first': 'POSITION<=SIZE'})
    return out


def df_spec(df, key, attr, n=None):
    df = df[[key, attr]] if n is None else df[[key, attr]].head(n)
    rows = [[k, (None if record.is_missing(v) else str(v))] for k, v in zip(df[key].tolist(), df[attr].tolist())]
    return {'cols': [key, attr], 'rows': rows, 'index': None, 'strcols': [attr], 'sdtype': 'object'}


def make_groups(tier, seed):
    rng = random.Random('%s|e9' % seed)
    groups = []
    n_rand = 240 if tier == 'quick' else 1500
    for gi in range(n_rand):
        ed = gi % 6 == 5
        if ed:
            nl, nr = rng.randint(0, 16), rng.randint(0, 16)
            tok = {'kind': 'qg', 'q': rng.choice([2, 2, 3, 1]), 'pad': rng.choice([1, 1, 0]), 'rs': rng.choice([0, 1])}
            case = {'kind': 'join', 'api': 'edit_distance_join', 'meas': 'EDIT_DISTANCE', 'filt': 'NONE',
                    'tok': tok, 't': [rng.choice([1, 2, 3]), 1], 'L': ed_table(rng, 'L', nl), 'R': ed_table(rng, 'R', nr)}
            t2 = [max(0, case['t'][0] - rng.choice([1, 2])), 1]
        else:
            big = tier == 'thorough' and gi % 10 == 0
            nl, nr = (rng.randint(20, 60), rng.randint(20, 60)) if big else (rng.randint(0, 18), rng.randint(0, 18))
            tok = rng.choice(TOKS)
            api = SET_APIS[gi % 5]
            case = {'kind': 'join', 'api': api, 'meas': record.JOINS[api], 'filt': 'NONE', 'tok': tok,
                    'L': rand_table(rng, 'L', nl, tok, 9 if big else 7), 'R': rand_table(rng, 'R', nr, tok, 9 if big else 7)}
            if api == 'overlap_join':
                case['t'] = rng.choice([[1, 1], [2, 1], [3, 1], [3, 2], [5, 2]])
                t2 = [case['t'][0] // case['t'][1] + rng.choice([1, 2]), 1]
            else:
                a, b = sorted(rng.sample(THS, 2), key=lambda t: t[0] / t[1])
                case['t'], t2 = a, b
        case.update(op='>=', ae=rng.choice([1, 1, 0]), am=rng.choice([0, 0, 1]), sc=rng.choice([1, 1, 0]),
                    lout=rng.choice([None, ['a']]), rout=rng.choice([None, ['b', 'a']]),
                    n_jobs=rng.choice([1, 1, 2, 3, 6, 7, 9]))
        first = rng.choice(['PREFIX', 'SIZE', 'POSITION']) if ed else rng.choice(['SIZE', 'PREFIX', 'POSITION', 'OVERLAP'])
        if case['meas'] == 'OVERLAP_COEFFICIENT':
            first = 'OVERLAP'
        groups.append({'case': case, 't2': t2, 'first_stage': first, 'validate': True, 'prewarm': int(ed or gi % 2 == 0),
                       'pipe_op': rng.choice(['<=', '<=', '<', '='] if ed else ['>=', '>=', '>', '=']),
                       'n_jobs_f': rng.choice([1, 2, 3, 7]), 'n_jobs_m': rng.choice([1, 3, 6, 9]), 'src': 'random#%d' % gi})
    # self-joins: ONE DataFrame object passed as both tables, joined on two different string columns
    for gi in range(24 if tier == 'quick' else 120):
        tok = {'kind': 'ws', 'rs': 1}
        n = rng.randint(5, 10)
        rows = []
        for j in range(n):
            a = rand_string(rng, tok, 5)
            b = a if rng.random() < 0.3 else rand_string(rng, tok, 5)
            rows.append([j + 1, a, b])
        spec = {'cols': ['id', 's', 's2'], 'rows': rows, 'index': None, 'strcols': ['s', 's2'], 'sdtype': 'object'}
        api = SET_APIS[gi % 4]
        a_, b_ = sorted(rng.sample(THS[:8], 2), key=lambda t: t[0] / t[1])
        case = {'kind': 'join', 'api': api, 'meas': record.JOINS[api], 'filt': 'NONE', 'tok': tok, 'L': spec, 'R': spec,
                'same_object': 1, 'lattr': 's', 'rattr': 's2', 't': a_, 'op': '>=', 'ae': 1, 'am': 0, 'sc': 1,
                'lout': None, 'rout': None, 'n_jobs': 1}
        groups.append({'case': case, 't2': b_, 'first_stage': 'OVERLAP' if api == 'overlap_coefficient_join' else 'SIZE',
                       'validate': True, 'n_jobs_f': 1, 'n_jobs_m': rng.choice([1, 2]), 'src': 'selfjoin#%d' % gi})
    # worst-case witness tables at the grid points where threshold * size is an exact integer
    # (float noise can flip a ceil / floor exactly there); all laws are checked on them
    from fractions import Fraction as F
    nmax = 64 if tier == 'quick' else 128
    gi = 0
    for meas, api in (('JACCARD', 'jaccard_join'), ('COSINE', 'cosine_join'), ('DICE', 'dice_join')):
        for p in range(1, 101):
            T = F(p, 100)
            for n in range(1, nmax + 1):
                x = {'JACCARD': T * n, 'COSINE': T * T * n, 'DICE': T / (2 - T) * n}[meas]
                if x.denominator != 1 or not 1 <= x <= n:
                    continue
                k = int(x)
                lone = ['a%03d' % j for j in range(n - k)]
                shared = ['z%03d' % j for j in range(k)]
                big, small, ctx = ' '.join(lone + shared), ' '.join(shared), ' '.join(lone)
                lrows, rrows = [[1, big], [2, ctx]], [[11, small]]
                if gi % 2:
                    lrows, rrows = [[1, small], [2, ctx]], [[11, big]]
                case = {'kind': 'join', 'api': api, 'meas': meas, 'filt': 'NONE', 'tok': {'kind': 'ws', 'rs': 1},
                        't': [p, 100], 'op': '>=', 'ae': 1, 'am': 0, 'sc': 1, 'lout': None, 'rout': None, 'n_jobs': 1,
                        'L': {'cols': ['id', 's'], 'rows': lrows, 'index': None, 'strcols': ['s']},
                        'R': {'cols': ['id', 's'], 'rows': rrows, 'index': None, 'strcols': ['s']}}
                t2 = [min(100, p + 1), 100]
                groups.append({'case': case, 't2': t2, 'first_stage': ['SIZE', 'PREFIX', 'OVERLAP', 'POSITION'][gi % 4],
                               'validate': True, 'src': 'tie:%s:%d/100:n=%d' % (meas, p, n)})
                gi += 1
    # score ties: pairs whose similarity o/u is a dyadic rational with a 5 in the fifth decimal (u = 32, 64): the double
    # is exact and round(., 4) must give the even neighbour (0.28125 -> 0.2812); needs token sets of 17-48 tokens
    def tie_tables(specs):
        lrows, rrows = [], []
        for j, (o, a, b) in enumerate(specs):
            shared = ['s%d_%d' % (j, i) for i in range(o)]
            lrows.append([j + 1, ' '.join(shared + ['a%d_%d' % (j, i) for i in range(a)])])
            rrows.append([101 + j, ' '.join(['b%d_%d' % (j, i) for i in range(b)] + shared)])
        return ({'cols': ['id', 's'], 'rows': lrows, 'index': None, 'strcols': ['s']},
                {'cols': ['id', 's'], 'rows': rrows, 'index': None, 'strcols': ['s']})
    tie_sets = [('JACCARD', 'jaccard_join', [(o, (32 - o) // 2, 32 - o - (32 - o) // 2) for o in range(1, 32, 2)]),
                ('JACCARD', 'jaccard_join', [(o, (64 - o) // 2, 64 - o - (64 - o) // 2) for o in range(2, 63, 4)]),
                ('DICE', 'dice_join', [(o, 32 - o, 32 - o) for o in range(1, 32, 2)]),
                ('DICE', 'dice_join', [(o, 20 - o, 44 - o) for o in range(1, 20, 2)])]
    for ti, (meas, api, specs) in enumerate(tie_sets):
        L, R = tie_tables(specs)
        case = {'kind': 'join', 'api': api, 'meas': meas, 'filt': 'NONE', 'tok': {'kind': 'ws', 'rs': 1},
                't': [3, 100], 'op': '>=', 'ae': 1, 'am': 0, 'sc': 1, 'lout': None, 'rout': None, 'n_jobs': 1 + ti % 2,
                'L': L, 'R': R}
        groups.append({'case': case, 't2': [1, 2], 'first_stage': ['SIZE', 'PREFIX', 'POSITION', 'OVERLAP'][ti],
                       'validate': True, 'src': 'scoretie:%s#%d' % (meas, ti)})
    # dense result: more than 10 000 output pairs from one worker (buffered output)
    def dense_table(base, n, side):
        return {'cols': ['id', 's'], 'rows': [[base + j, 'al be ga' + (' x%d' % (j % 3) if side == 'L' else ' x%d' % (j % 2))]
                                                for j in range(n)], 'index': None, 'strcols': ['s']}
    for di, (api, nj) in enumerate((('jaccard_join', 1), ('overlap_join', 2)) if tier == 'quick' else
                                   (('jaccard_join', 1), ('overlap_join', 2), ('dice_join', 1), ('cosine_join', 3),
                                    ('overlap_coefficient_join', 1))):
        n = 110 if nj == 1 else 150
        case = {'kind': 'join', 'api': api, 'meas': record.JOINS[api], 'filt': 'NONE', 'tok': {'kind': 'ws', 'rs': 1},
                't': [3, 1] if api == 'overlap_join' else [1, 2], 'op': '>=', 'ae': 1, 'am': 0, 'sc': 1, 'lout': None,
                'rout': None, 'n_jobs': nj, 'L': dense_table(1, n, 'L'), 'R': dense_table(5001, n, 'R')}
        groups.append({'case': case, 't2': [4, 1] if api == 'overlap_join' else [9, 10],
                       'first_stage': 'OVERLAP' if api == 'overlap_coefficient_join' else 'SIZE',
                       'validate': api != 'overlap_join', 'n_jobs_m': 1 + di % 2, 'src': 'dense:%s' % api})
    # long right table: more than 1 000 rows in one worker, every row with a token that occurs nowhere else, and
    # token-less rows on the left
    for li, (api, nrows, nj) in enumerate((('jaccard_join', 1500, 1),) if tier == 'quick' else
                                          (('jaccard_join', 1500, 1), ('cosine_join', 2600, 2), ('dice_join', 1200, 1))):
        lrows = [[1, ''], [2, 'part common'], [3, ' '], [4, 'p0007 common'], [5, None]]
        rrows = [[1001 + j, 'p%04d%s' % (j, ' common' if j % 50 == 0 else '')] for j in range(nrows)]
        case = {'kind': 'join', 'api': api, 'meas': record.JOINS[api], 'filt': 'NONE', 'tok': {'kind': 'ws', 'rs': 1},
                't': [1, 2], 'op': '>=', 'ae': 1, 'am': 0, 'sc': 1, 'lout': None, 'rout': None, 'n_jobs': nj,
                'L': {'cols': ['id', 's'], 'rows': lrows, 'index': None, 'strcols': ['s']},
                'R': {'cols': ['id', 's'], 'rows': rrows, 'index': None, 'strcols': ['s']}}
        groups.append({'case': case, 't2': [7, 10], 'first_stage': 'SIZE', 'validate': True,
                       'src': 'longright:%s:%d' % (api, nrows)})
    # the same for the overlap coefficient (not rounded): overlap k of a smaller set of n tokens with k / n = p / 100
    # exactly - a product threshold * n computed in floating point lands just above k for some of them (0.28 * 25)
    for p in range(1, 101):
        for n in range(1, nmax + 1):
            if (p * n) % 100 or not 1 <= p * n // 100 <= n:
                continue
            k = p * n // 100
            shared = ['z%03d' % j for j in range(k)]
            small = ' '.join(shared + ['a%03d' % j for j in range(n - k)])
            large = ' '.join(['b%03d' % j for j in range(n - k + 2)] + shared)
            lrows, rrows = ([[1, small]], [[11, large]]) if gi % 2 else ([[1, large]], [[11, small]])
            case = {'kind': 'join', 'api': 'overlap_coefficient_join', 'meas': 'OVERLAP_COEFFICIENT', 'filt': 'NONE',
                    'tok': {'kind': 'ws', 'rs': 1}, 't': [p, 100], 'op': '>=', 'ae': 1, 'am': 0, 'sc': 1, 'lout': None,
                    'rout': None, 'n_jobs': 1,
                    'L': {'cols': ['id', 's'], 'rows': lrows, 'index': None, 'strcols': ['s']},
                    'R': {'cols': ['id', 's'], 'rows': rrows, 'index': None, 'strcols': ['s']}}
            groups.append({'case': case, 't2': [min(100, p + 1), 100], 'first_stage': 'OVERLAP', 'validate': True,
                           'src': 'tie:OVERLAP_COEFFICIENT:%d/100:n=%d' % (p, n)})
            gi += 1
    # bundled data
    ssj = lib.load()
    A, B = ssj.load_person_dataset()
    for attr, tok, apis in (('name', {'kind': 'ws', 'rs': 1}, ['jaccard_join', 'cosine_join', 'overlap_join']),
                            ('address', {'kind': 'qg', 'q': 3, 'pad': 1, 'rs': 1}, ['dice_join', 'overlap_coefficient_join']),
                            ('name', {'kind': 'qg', 'q': 2, 'pad': 1, 'rs': 0}, ['edit_distance_join'])):
        for api in apis:
            meas = record.JOINS[api]
            case = {'kind': 'join', 'api': api, 'meas': meas, 'filt': 'NONE', 'tok': tok, 'op': '>=', 'ae': 1, 'am': 0,
                    'sc': 1, 'lout': None, 'rout': None, 'n_jobs': 1, 'lkey': 'A.id', 'rkey': 'B.id',
                    'lattr': 'A.' + attr, 'rattr': 'B.' + attr,
                    'L': df_spec(A, 'A.id', 'A.' + attr), 'R': df_spec(B, 'B.id', 'B.' + attr)}
            if meas == 'EDIT_DISTANCE':
                case['t'], t2 = [5, 1], [2, 1]
            elif meas == 'OVERLAP':
                case['t'], t2 = [1, 1], [2, 1]
            else:
                case['t'], t2 = [3, 10], [1, 2]
            groups.append({'case': case, 't2': t2, 'first_stage': 'PREFIX' if meas == 'EDIT_DISTANCE' else 'POSITION',
                           'validate': False, 'src': 'person:%s:%s' % (attr, api)})
    A, B = ssj.load_books_dataset()
    nb = 250 if tier == 'quick' else 1000        # (the full tables give 128 446 pairs on Publisher: 200 MB law records)
    for attr, tok, api, t, t2 in (('Title', {'kind': 'ws', 'rs': 1}, 'jaccard_join', [3, 10], [1, 2]),
                                  ('Author', {'kind': 'ws', 'rs': 0}, 'cosine_join', [1, 2], [7, 10]),
                                  ('Title', {'kind': 'alnum', 'rs': 1}, 'dice_join', [1, 2], [3, 5]),
                                  ('Publisher', {'kind': 'ws', 'rs': 1}, 'overlap_coefficient_join', [4, 5], [1, 1])):
        case = {'kind': 'join', 'api': api, 'meas': record.JOINS[api], 'filt': 'NONE', 'tok': tok, 'op': '>=',
                'ae': 0, 'am': 0, 'sc': 1, 'lout': None, 'rout': None, 'n_jobs': 1, 'lkey': 'ID', 'rkey': 'ID',
                'lattr': attr, 'rattr': attr, 't': t,
                'L': df_spec(A, 'ID', attr, nb), 'R': df_spec(B, 'ID', attr, nb)}
        groups.append({'case': case, 't2': t2, 'first_stage': 'SIZE' if api != 'overlap_coefficient_join' else 'OVERLAP',
                       'validate': False, 'src': 'books:%s:%s' % (attr, api)})
    return groups


def run(tier, seed):
    groups = make_groups(tier, seed)
    items = [(j + 1, g) for j, g in enumerate(groups)]
    runner.log('E9: %d groups of related calls (random tables, person, books)' % len(items))
    outs = runner.pmap(run_group, items, chunk=1)
    laws, apis, where, fresh_case = [], [], {}, {}
    for o in outs:
        for l in o['laws']:
            l['tid'] = len(laws) + 1
            where[('law', l['tid'])] = o['gid']
            laws.append(l)
        for a in o['api']:
            a['tid'] = len(apis) + 1
            where[('api', a['tid'])] = o['gid']
            apis.append(a)
    # C10: a sample of the joins once more in fresh interpreters, compared with the runs in the worn worker processes
    rng = random.Random('%s|e9fresh' % seed)
    pool_groups = [g for g in groups if g['src'].startswith(('random', 'selfjoin'))]
    picked = rng.sample(pool_groups, min(len(pool_groups), 96 if tier == 'quick' else 400))
    for l in runner.fresh_vs_worn([dict(g['case'], op=('<=' if g['case']['meas'] == 'EDIT_DISTANCE' else '>=')) for g in picked]):
        l['tid'] = len(laws) + 1
        fresh_case[l['tid']] = l.pop('_case')
        laws.append(l)
    runner.log('E9: TLC judges %d laws and %d join traces' % (len(laws), len(apis)))
    small = [l for l in laws if len(l['A']) + len(l['B']) < 3000]
    big = [l for l in laws if len(l['A']) + len(l['B']) >= 3000]
    apis_small = [a for a in apis if len(a['L']) * len(a['R']) < 2000]
    apis_big = [a for a in apis if len(a['L']) * len(a['R']) >= 2000]
    # the few large traces are judged in the background while the many small ones are
    from concurrent.futures import ThreadPoolExecutor
    with ThreadPoolExecutor(2) as ex:
        fb = ex.submit(runner.validate, big, 'TraceLaws', 'e9b', batch=1, heap='4g')
        fd = ex.submit(runner.validate, apis_big, 'TraceAPI', 'e9d', batch=1, heap='4g')
        lverd, lst = runner.validate(small, 'TraceLaws', 'e9l', batch=60)
        averd, ast = runner.validate(apis_small, 'TraceAPI', 'e9a', batch=25)
        bverd, bst = fb.result()
        dverd, dst = fd.result()
    lverd.update(bverd)
    averd.update(dverd)
    ast = {k: ast[k] + dst[k] for k in ('states', 'transitions')}
    gmap = dict(items)
    lmap = {l['tid']: l for l in laws}
    fails = []
    for tid, v in lverd.items():
        if tid in fresh_case:
            for f in v['fails']:
                fails.append({'prop': f[0], 'clause': f[1] + ':fresh-interpreter', 'detail': f[2:],
                              'case': dict(fresh_case[tid], _variant='fresh-interpreter'), 'engine': 'E9'})
            continue
        g = gmap[where[('law', tid)]]
        l = lmap[tid]
        for f in v['fails']:
            c = copy.deepcopy(g['case'])
            c['_law'] = {'law': l['law'], 't2': g['t2'], 'first_stage': g['first_stage'], 'first': l.get('first'),
                         'note': l.get('note'), 'src': g['src']}
            if len(c['L']['rows']) > 400 and g['src'].startswith(('person', 'books')):
                c['L'], c['R'] = {'dataset': g['src']}, {'dataset': g['src']}
            fails.append({'prop': f[0], 'clause': f[1], 'detail': f[2:] + [l['law'], l.get('first')], 'case': c,
                          'engine': 'E9'})
    for tid, v in averd.items():
        g = gmap[where[('api', tid)]]
        for f in v['fails'][:25]:           # a dense table can have thousands of missed pairs: one replay case suffices
            fails.append({'prop': f[0], 'clause': f[1], 'detail': f[2:], 'case': g['case'], 'engine': 'E9'})
    samples = [{'src': g['src'], 'api': g['case']['api'], 't': g['case']['t'], 't2': g['t2'],
                'first_stage': g['first_stage'], 'tok': g['case']['tok'],
                'L_head': [r[g['case']['L']['cols'].index(g['case'].get('lattr', 's'))] for r in g['case']['L']['rows'][:4]]}
               for g in (groups[0], groups[1], groups[-1])]
    return {'engine': 'E9', 'cases': len(laws) + len(apis), 'traces': len(laws) + len(apis),
            'states': lst['states'] + bst['states'] + ast['states'],
            'transitions': lst['transitions'] + bst['transitions'] + ast['transitions'],
            'fails': fails, 'samples': samples, 'exhaustive': False,
            'spec_runs': ['TraceLaws: %d laws' % len(laws), 'TraceAPI: %d join traces' % len(apis)],
            'rule': '%d groups: seeded random tables (7 tokenizer configurations incl. bag mode, unicode, duplicates, '
                    'missing and empty values, index labels) + person + books data; per group the laws PARTITION, '
                    'REFINE, TRANSPOSE, PIPE, KEYSUB and envelope validation of the joins' % len(groups)}


def replay(case):
    law = case.get('_law')
    if case.get('_variant') == 'fresh-interpreter':
        base = {k: v for k, v in case.items() if k != '_variant'}
        laws = runner.fresh_vs_worn([base])
        for j, l in enumerate(laws):
            l['tid'] = j + 1
            l.pop('_case')
        v, _ = runner.validate(laws, 'TraceLaws', 'replay-e9f')
        return [{'prop': f[0], 'clause': f[1] + ':fresh-interpreter', 'detail': f[2:]} for x in v.values() for f in x['fails']], {}
    if not law:
        obs, res, ev, tabs = record.execute(case)
        rec = record.abstract(case, obs, res, tabs, 1)
        v, _ = runner.validate([rec], 'TraceAPI', 'replay-e9')
        return [{'prop': f[0], 'clause': f[1], 'detail': f[2:]} for f in v[1]['fails']], rec
    base = {k: v for k, v in case.items() if k != '_law'}
    if 'dataset' in base['L']:
        g = [g for g in make_groups('thorough', 0) if g['src'] == law['src']][0]
        base = g['case']
    g = {'case': base, 't2': law['t2'], 'first_stage': law['first_stage'], 'validate': False, 'src': law['src']}
    out = run_group((1, g))
    laws = [l for l in out['laws'] if l['law'] == law['law'] and l.get('first') == law.get('first')]
    for j, l in enumerate(laws):
        l['tid'] = j + 1
    v, _ = runner.validate(laws, 'TraceLaws', 'replay-e9l', batch=1, heap='4g')
    fails = [{'prop': f[0], 'clause': f[1], 'detail': f[2:]} for x in v.values() for f in x['fails']]
    return fails, {'laws': [l['law'] for l in laws]}
