"""Engine E7 - the validation matrix (C15).

TLC enumerates entry point x violated preconditions x context from
spec/Validation.tla; the harness realises each case as a call on the real
library (recording tokenizer: counts tokenize calls), and TLC judges the
recorded outcomes with spec/TraceValidation.tla.
"""
import random

import numpy as np
import pandas as pd

from .. import lib, record, runner, tlc

JOIN_MEAS = {'jaccard_join': 'SET', 'cosine_join': 'SET', 'dice_join': 'SET',
             'overlap_coefficient_join': 'SET', 'overlap_join': 'OVERLAP', 'edit_distance_join': 'ED'}


def counting_tokenizer(kind, rs):
    import py_stringmatching as sm
    base = sm.QgramTokenizer if kind == 'qg' else sm.WhitespaceTokenizer

    class Counting(base):
        def __init__(self, *a, **k):
            base.__init__(self, *a, **k)
            self.n_calls = 0

        def tokenize(self, s):
            self.n_calls += 1
            return base.tokenize(self, s)
    if kind == 'qg':
        return Counting(qval=2, return_set=bool(rs))
    return Counting(return_set=bool(rs))


def tables(shape, dtype, faults):
    sd = object if dtype == 'object' else 'str'
    lvals = {'normal': ['a b', 'b c d', 'a'], 'onerow': ['a b'], 'norows': [],
             'allmissing': [None, None, None], 'allempty': ['', '', '']}[shape]
    rvals = {'normal': ['a b', 'c'], 'onerow': ['a b'], 'norows': [],
             'allmissing': [None, None], 'allempty': ['', '']}[shape]
    def mk(vals, base, side):
        ids = list(range(base, base + len(vals)))
        keycol = pd.Series(ids, dtype='int64')
        if side + '_key_dup' in faults and len(ids) >= 2:
            keycol = pd.Series([ids[0]] + ids[:-1], dtype='int64')
        if side + '_key_nan' in faults and ids:
            keycol = pd.Series([np.nan] + [float(v) for v in ids[1:]], dtype=float)
        scol = pd.Series(vals, dtype=sd)
        if side + '_numeric' in faults:
            scol = pd.Series(list(range(len(vals))), dtype='int64')
        df = pd.DataFrame({'id': keycol, 's': scol, 'x': pd.Series([7 * j for j in range(len(vals))], dtype='int64')})
        return df
    return mk(lvals, 1, 'l'), mk(rvals, 11, 'r')


def run_case(item):
    tid, gen = item
    ssj = lib.load()
    import py_stringmatching as sm
    entry, faults, ctx = gen['entry'], set(gen['faults']), gen['ctx']
    ltab, rtab = tables(ctx['shape'], ctx['dtype'], faults)
    am = ctx['flags'] in (1, 2)
    sc = ctx['flags'] == 1
    is_ed = entry == 'edit_distance_join'
    tok = counting_tokenizer('qg' if is_ed else 'ws', ctx['tokmode'])
    tok_arg = tok
    if 'tokenizer' in faults:
        tok_arg = 'not a tokenizer'
    if 'not_qgram' in faults:
        tok = counting_tokenizer('ws', ctx['tokmode'])
        tok_arg = tok
    fb = int(bool(tok.get_return_set()))
    near = ctx['tokmode'] == 1

    def threshold(kind):
        if 'threshold_low' in faults:
            return {'SET': 0 if near else -0.5, 'OVERLAP': 0 if near else -2, 'ED': -1 if near else -0.5}[kind]
        if 'threshold_high' in faults:
            return 1.0000001 if near else 2
        if ctx['thr'] == 'edge':
            return {'SET': 1.0, 'OVERLAP': 1, 'ED': 0}[kind]
        return {'SET': 0.5, 'OVERLAP': 1, 'ED': 1}[kind]

    larg = ltab.values.tolist() if 'ltable_not_df' in faults else ltab
    rarg = rtab.values.tolist() if 'rtable_not_df' in faults else rtab
    lkey = 'nokey' if 'l_key_attr' in faults else 'id'
    rkey = 'nokey' if 'r_key_attr' in faults else 'id'
    lattr = 'noattr' if 'l_attr' in faults else 's'
    rattr = 'noattr' if 'r_attr' in faults else 's'
    # self-join: ONE DataFrame object passed as both tables, its valid key on the left and another column of it, which
    # is not a key (duplicates / a missing value), as the right key - the right key must be checked all the same
    selfjoin = bool(faults) and faults <= {'r_key_dup', 'r_key_nan'} and tid % 3 == 1 and len(ltab) >= 2 \
        and entry not in ('SizeFilter', 'PrefixFilter', 'PositionFilter', 'SuffixFilter', 'OverlapFilter', 'profile')
    if selfjoin:
        ids = ltab['id'].tolist()
        ltab['id2'] = pd.Series([ids[0]] + ids[:-1], dtype='int64') if 'r_key_dup' in faults else \
            pd.Series([np.nan] + [float(v) for v in ids[1:]], dtype=float)
        rarg, rkey = ltab, 'id2'
    lout = ['x', 'nope'] if 'l_out' in faults else ['x']
    rout = ['nope'] if 'r_out' in faults else None
    cand = pd.DataFrame({'_id': pd.Series(range(len(ltab) * len(rtab)), dtype='int64'),
                         'l_id': pd.Series([l for l in range(1, 1 + len(ltab)) for _ in range(len(rtab))], dtype='int64'),
                         'r_id': pd.Series([r for _ in range(len(ltab)) for r in range(11, 11 + len(rtab))], dtype='int64')})
    if entry in ('apply_matcher', 'filter_candset') and tid % 3 == 2:
        cand = cand.head(0)            # an empty candidate set must not bypass the validation
    carg = cand.values.tolist() if 'candset_not_df' in faults else cand
    clk = 'nope' if 'cand_l_key' in faults else 'l_id'
    crk = 'nope' if 'cand_r_key' in faults else 'r_id'
    def invoke():
        result = None
        if entry in JOIN_MEAS:
            kind = JOIN_MEAS[entry]
            op = '>='
            if is_ed:
                op = '<='
            if 'op' in faults:
                op = ('>=' if is_ed else '<=') if near else 'foo'
            thr = threshold(kind)
            kw = dict(allow_missing=am, l_out_attrs=lout, r_out_attrs=rout, out_sim_score=sc, n_jobs=1,
                      show_progress=False)
            fn = getattr(ssj, entry)
            if is_ed:
                result = fn(larg, rarg, lkey, rkey, lattr, rattr, thr, op, tokenizer=tok_arg, **kw)
            elif entry == 'overlap_join':
                result = fn(larg, rarg, lkey, rkey, lattr, rattr, tok_arg, thr, op, **kw)
            else:
                result = fn(larg, rarg, lkey, rkey, lattr, rattr, tok_arg, thr, op, allow_empty=(tid % 2 == 0), **kw)
        elif entry in ('SizeFilter', 'PrefixFilter', 'PositionFilter', 'SuffixFilter'):
            meas = ['JACCARD', 'COSINE', 'DICE', 'OVERLAP', 'jaccard'][tid % 5]
            kind = 'OVERLAP' if meas == 'OVERLAP' else 'SET'
            if 'not_qgram' in faults:
                meas, kind = 'EDIT_DISTANCE', 'ED'
            if 'measure' in faults:
                meas = 'FOO'
            if 'threshold_high' in faults and kind != 'SET':
                meas, kind = 'JACCARD', 'SET'
            result = getattr(ssj, entry)(tok_arg, meas, threshold(kind), allow_empty=True, allow_missing=am)
        elif entry == 'OverlapFilter':
            op = ('<=' if near else 'foo') if 'op' in faults else '>='
            result = ssj.OverlapFilter(tok_arg, threshold('OVERLAP'), op, allow_missing=am)
        elif entry.endswith('.filter_tables'):
            cls = entry.split('.')[0]
            if cls == 'OverlapFilter':
                flt = ssj.OverlapFilter(tok, 1, '>=', allow_missing=am)
                result = flt.filter_tables(larg, rarg, lkey, rkey, lattr, rattr, lout, rout,
                                           out_sim_score=sc, n_jobs=1, show_progress=False)
            else:
                flt = getattr(ssj, cls)(tok, 'JACCARD', threshold('SET') if not faults else 0.5, allow_missing=am)
                result = flt.filter_tables(larg, rarg, lkey, rkey, lattr, rattr, lout, rout, n_jobs=1,
                                           show_progress=False)
        elif entry == 'filter_candset':
            flt = [ssj.SizeFilter(tok, 'JACCARD', 0.5, allow_missing=am), ssj.OverlapFilter(tok, 1, allow_missing=am),
                   ssj.PositionFilter(tok, 'DICE', 0.5, allow_missing=am)][tid % 3]
            result = flt.filter_candset(carg, clk, crk, larg, rarg, lkey, rkey, lattr, rattr, n_jobs=1,
                                        show_progress=False)
        elif entry == 'apply_matcher':
            op = 'foo' if 'op' in faults else ['>=', '<', '!='][tid % 3]
            result = ssj.apply_matcher(carg, clk, crk, larg, rarg, lkey, rkey, lattr, rattr, tok_arg,
                                       sm.Jaccard().get_raw_score, 0.5, op, allow_missing=am, l_out_attrs=lout,
                                       r_out_attrs=rout, out_sim_score=sc, n_jobs=1, show_progress=False)
        elif entry == 'profile':
            targ = ltab.values.tolist() if 'table_not_df' in faults else ltab
            attrs = ['s', 'nope'] if 'profile_attr' in faults else [None, ['s'], ['id', 's', 'x']][tid % 3]
            result = ssj.profile_table_for_join(targ, attrs)

        return result
    key_faults = faults & {'l_key_dup', 'l_key_nan', 'r_key_dup', 'r_key_nan'}
    if key_faults and tid % 2 == 0 and not selfjoin and entry not in ('SizeFilter', 'PrefixFilter', 'PositionFilter', 'SuffixFilter',
                                                      'OverlapFilter', 'profile'):
        # the same call is first made with valid keys on the SAME DataFrame objects; the key column is then made
        # invalid in place (same number of rows) - the second call must still be rejected
        good_l, good_r = tables(ctx['shape'], ctx['dtype'], set())
        bad_l, bad_r = ltab['id'].tolist(), rtab['id'].tolist()
        ltab['id'], rtab['id'] = good_l['id'].values, good_r['id'].values
        try:
            invoke()
        except Exception:
            pass
        if 'l_key_dup' in faults or 'l_key_nan' in faults:
            ltab['id'] = bad_l
        if 'r_key_dup' in faults or 'r_key_nan' in faults:
            rtab['id'] = bad_r
        tok.n_calls = 0
        tok.set_return_set(bool(fb))
    snaps = [record.snapshot(d) for d in (ltab, rtab, cand)]
    raised, result = '', None
    try:
        result = invoke()
    except Exception as exc:
        raised = type(exc).__name__
        gen['_exc'] = '%s: %s' % (raised, str(exc)[:200])
    kind = 'DataFrame' if isinstance(result, pd.DataFrame) else type(result).__name__
    if raised == '' and kind != 'DataFrame' and entry not in ('SizeFilter', 'PrefixFilter', 'PositionFilter',
                                                               'SuffixFilter', 'OverlapFilter'):
        raised = 'NotADataFrame'
    same = int(all(record.same_as_snapshot(d, s) for d, s in zip((ltab, rtab, cand), snaps)))
    return {'tid': tid, 'entry': entry, 'faults': sorted(faults),
            'obs': {'raised': raised, 'fb': fb, 'fa': int(bool(tok.get_return_set())), 'same': same,
                    'tokenized': int(tok.n_calls), 'kind': kind}}


def run(tier, seed):
    cfg = 'Validation_q' if tier == 'quick' else 'Validation_t'
    res = tlc.run('Validation', cfg, workers=1, heap='3g')
    gens = res.tag('GEN')
    if len(gens) != res.distinct or not gens:
        raise runner.MachineryError('Validation: %d GEN for %d states' % (len(gens), res.distinct))
    items = [(j + 1, g) for j, g in enumerate(gens)]
    runner.log('E7: %d cases of the validation matrix (TLC-enumerated)' % len(items))
    recs = runner.pmap(run_case, items)
    verdicts, stats = runner.validate(recs, 'TraceValidation', 'e7', batch=4000)
    by_tid = dict(items)
    fails = []
    for tid, v in verdicts.items():
        for f in v['fails']:
            g = by_tid[tid]
            fails.append({'prop': f[0], 'clause': f[1], 'detail': [g['entry'], sorted(g['faults'])],
                          'case': {'kind': 'validation', 'api': g['entry'], 'meas': ','.join(sorted(g['faults'])),
                                   'gen': g, 'tid': tid}, 'engine': 'E7'})
    rng = random.Random(seed)
    samples = [recs[j] for j in sorted(rng.sample(range(len(recs)), 3))]
    n_fault = len([g for g in gens if g['faults']])
    return {'engine': 'E7', 'cases': len(items), 'traces': len(recs), 'states': res.distinct + stats['states'],
            'transitions': stats['transitions'], 'fails': fails, 'samples': samples, 'exhaustive': True,
            'spec_runs': ['Validation: %d cases (%d with violated preconditions)' % (len(gens), n_fault),
                          'TraceValidation: %d traces' % len(recs)],
            'rule': 'entry point x sets of violated preconditions (size <= %d) x contexts (tokenizer mode, table shape '
                    'incl. no rows / one row / all missing / all empty, object or string dtype, flags, boundary '
                    'thresholds) enumerated by TLC from spec/Validation.tla' % (1 if tier == 'quick' else 2)}


def replay(case):
    rec = run_case((case.get('tid', 1), case['gen']))
    verdicts, _ = runner.validate([rec], 'TraceValidation', 'replay-e7')
    return [{'prop': f[0], 'clause': f[1], 'detail': f[2:]} for f in verdicts[rec['tid']]['fails']], rec
