"""Engine E1 - arithmetic envelopes.

For every (measure, threshold) of a grid and every token count up to N the
harness observes (a) the four bound functions of filter/filter_utils.py,
(b) the public SizeFilter.filter_pair on every pair of counts, (c) the public
Prefix/Position/Suffix filter_pair on worst-case witness pairs, and (d) the
public joins and filter_tables on worst-case witness tables.  TLC judges (a)-(c)
with spec/TraceArith.tla and (d) with spec/TraceAPI.tla.  Inadmissible values of
the bound functions (ESC) are implementation-level findings: only the public
observations (b)-(d) can be violations.
"""
import random
from fractions import Fraction as F
from math import ceil

from .. import lib, record, runner

MEASURES = ['JACCARD', 'COSINE', 'DICE']


def grid(tier):
    g = []
    if tier == 'quick':
        for meas in MEASURES:
            g += [(meas, [k, 100], 64) for k in range(1, 101)]
        g += [('OVERLAP', [k, 1], 64) for k in (1, 2, 3, 5, 8)]
    else:
        for meas in MEASURES:
            g += [(meas, [k, 100], 128) for k in range(1, 101)]
            g += [(meas, [k, 7], 128) for k in range(1, 8)]
            g += [(meas, [k, 13], 128) for k in range(1, 14)]
            g += [(meas, [k, 64], 128) for k in range(1, 65)]
            if meas != 'COSINE':
                g += [(meas, [k, 1000], 64) for k in range(1, 1001, 3)]
        g += [('OVERLAP', [k, 1], 128) for k in (1, 2, 3, 5, 8, 13, 40)]
    return g


def min_overlap(meas, t, n):
    T = F(t[0], t[1])
    if meas == 'JACCARD':
        return ceil(T * n)
    if meas == 'COSINE':
        return ceil(T * T * n)
    if meas == 'DICE':
        return ceil(T / (2 - T) * n)
    return t[0]


def toks(prefix, n):
    return ['%s%03d' % (prefix, i) for i in range(1, n + 1)]


def run_batch(item):
    bid, meas, t, N = item
    ssj = lib.load()
    import py_stringmatching as sm
    tok = sm.WhitespaceTokenizer(return_set=True)
    thr = t[0] if meas == 'OVERLAP' else t[0] / t[1]
    rec = {'bid': bid, 'meas': meas, 't': t, 'N': N, 'internal': True}
    try:
        from py_stringsimjoin.filter import filter_utils as fu
        rec['prefix'] = [int(fu.get_prefix_length(n, meas, thr, tok)) for n in range(0, N + 1)]
        rec['lb'] = [int(fu.get_size_lower_bound(n, meas, thr)) for n in range(0, N + 1)]
        rec['ub'] = [min(int(fu.get_size_upper_bound(n, meas, thr)), 1000000) for n in range(0, N + 1)]
        rec['ot'] = [[int(fu.get_overlap_threshold(n, m, meas, thr, tok)) for m in range(1, N + 1)]
                     for n in range(1, N + 1)]
    except Exception:
        # internals moved: implementation layer unavailable (drift), the public observations remain
        rec['internal'] = False
        rec['prefix'] = [n for n in range(0, N + 1)]
        rec['lb'] = [0] * (N + 1)
        rec['ub'] = [1000000] * (N + 1)
        rec['ot'] = [[0] * N for _ in range(N)]
    size_f = ssj.SizeFilter(tok, meas, thr)
    base = toks('w', N)
    extra = toks('x', N)
    strs = [' '.join(base[:n]) for n in range(0, N + 1)]
    sp = []
    for n in range(1, N + 1):
        row = []
        for m in range(1, N + 1):
            ys = strs[m] if m <= n else strs[n] + ' ' + ' '.join(extra[:m - n])
            row.append(int(bool(size_f.filter_pair(strs[n], ys))))
        sp.append(row)
    rec['sp'] = sp
    others = [cls(tok, meas, thr) for cls in (ssj.PrefixFilter, ssj.PositionFilter, ssj.SuffixFilter)]
    wit = []
    for n in range(1, N + 1):
        k0 = min_overlap(meas, t, n)
        for k in sorted({k0, k0 + 1}):
            if 1 <= k <= n:
                ys = ' '.join(base[n - k:n])
                w = [n, k] + [int(bool(f.filter_pair(strs[n], ys))) for f in others] \
                    + [int(bool(f.filter_pair(ys, strs[n]))) for f in others]
                wit.append(w)
    rec['wit'] = wit
    return rec


def witness_case(meas, t, n, k, what, rng, side='L'):
    """Worst-case table for the prefix of an n-token row: the partner is made of the k
    tokens of the row that sort last; a context row equalises all token frequencies."""
    lone = toks('a', n - k)
    shared = toks('z', k)
    x, y, ctx = ' '.join(lone + shared), ' '.join(shared), ' '.join(lone)
    case = {'tok': {'kind': 'ws', 'rs': 1}, 'meas': meas, 't': t, 'ae': 1, 'am': 0, 'lout': None,
            'rout': None, 'n_jobs': 1, 'op': '>='}
    big, small = [[1, x], [2, ctx]], [[11, y]]
    if side == 'L':
        case['L'] = {'cols': ['id', 's'], 'rows': big, 'index': None, 'strcols': ['s']}
        case['R'] = {'cols': ['id', 's'], 'rows': small, 'index': None, 'strcols': ['s']}
    else:
        case['L'] = {'cols': ['id', 's'], 'rows': [[1, y], [2, ctx]], 'index': None, 'strcols': ['s']}
        case['R'] = {'cols': ['id', 's'], 'rows': [[11, x]], 'index': None, 'strcols': ['s']}
    if what in record.JOINS:
        case.update(kind='join', api=what, filt='NONE', sc=1)
    else:
        case.update(kind='ftab', api=what + '.filter_tables', filt=what, sc=0)
    case['_witness'] = [n, k, side]
    return case


JOIN_OF = {'JACCARD': 'jaccard_join', 'COSINE': 'cosine_join', 'DICE': 'dice_join', 'OVERLAP': 'overlap_join'}


def ed_witness_cases():
    """Worst-case pairs for the edit-distance prefix / position / size arithmetic: a string of distinct
    characters and the same string with tau substitutions placed q or more apart, so that exactly q*tau q-grams of
    each string are unshared and - being the rarest - sort first: the pair is found only with a prefix of
    q*tau + 1 tokens.  All (length, q, tau) combinations are run one after the other in the same process."""
    letters = 'abcdefghijklmnop'
    cases = []
    for L in range(3, 14):
        for q in (1, 2, 3):
            for tau in (1, 2):
                for pad in (0, 1):
                    x = letters[:L]
                    pos = [q - 1 + j * (q + 1) for j in range(tau)]
                    if pad == 0 and (pos[-1] + q > L or L - q + 1 < q * tau + 1):
                        continue
                    if pos[-1] >= L:
                        continue
                    y = list(x)
                    for j, p_ in enumerate(pos):
                        y[p_] = 'XY'[j]
                    y = ''.join(y)
                    for what in ('edit_distance_join', 'PREFIX', 'POSITION', 'SUFFIX', 'SIZE'):
                        for side in ('L', 'R'):
                            case = {'tok': {'kind': 'qg', 'q': q, 'pad': pad, 'rs': 0}, 'meas': 'EDIT_DISTANCE',
                                    't': [tau, 1], 'ae': 1, 'am': 0, 'lout': None, 'rout': None, 'n_jobs': 1, 'op': '<=',
                                    'L': {'cols': ['id', 's'], 'rows': [[1, x if side == 'L' else y]], 'index': None, 'strcols': ['s']},
                                    'R': {'cols': ['id', 's'], 'rows': [[11, y if side == 'L' else x]], 'index': None, 'strcols': ['s']}}
                            if what == 'edit_distance_join':
                                case.update(kind='join', api=what, filt='NONE', sc=1)
                            else:
                                case.update(kind='ftab', api=what + '.filter_tables', filt=what, sc=0)
                            case['_witness'] = ['ED', L, q, tau, pad, side]
                            cases.append(case)
    # long strings of unequal length: one character doubled (an insertion next to an identical character) at the
    # start, in the middle and at the end - common prefix and common suffix overlap, the distance is exactly 1
    for L in (12, 13, 14, 16):
        x = letters[:L]
        for p_ in (0, L // 2, L - 1):
            y = x[:p_ + 1] + x[p_] + x[p_ + 1:]
            for op, tau in (('<=', 1), ('=', 1), ('<', 1), ('<', 2)):
                for side in ('L', 'R'):
                    case = {'tok': {'kind': 'qg', 'q': 2, 'pad': 1, 'rs': 0}, 'meas': 'EDIT_DISTANCE',
                            't': [tau, 1], 'ae': 1, 'am': 0, 'lout': None, 'rout': None, 'n_jobs': 1, 'op': op,
                            'L': {'cols': ['id', 's'], 'rows': [[1, x if side == 'L' else y]], 'index': None, 'strcols': ['s']},
                            'R': {'cols': ['id', 's'], 'rows': [[11, y if side == 'L' else x]], 'index': None, 'strcols': ['s']},
                            'kind': 'join', 'api': 'edit_distance_join', 'filt': 'NONE', 'sc': 1}
                    case['_witness'] = ['ED-doubled', L, p_, op, tau, side]
                    cases.append(case)
    return cases


def run_api_case(item):
    tid, case = item
    obs, result, events, tables = record.execute(case)
    return record.abstract(case, obs, result, tables, tid)


def run(tier, seed):
    g = grid(tier)
    batches = [(i + 1, meas, t, N) for i, (meas, t, N) in enumerate(g)]
    runner.log('E1: %d (measure, threshold) batches, counts up to %d' % (len(batches), max(b[3] for b in batches)))
    recs = runner.pmap(run_batch, batches, chunk=2)
    internal = all(r['internal'] for r in recs)
    points = sum((r['N'] + 1) * 3 + r['N'] * r['N'] * 2 + len(r['wit']) for r in recs)
    runner.log('E1: TLC judges %d observations' % points)
    verd, stats = runner.validate(recs, 'TraceArith', 'e1', batch=max(1, len(recs) // 32 + 1), tag='DONE', id_key='bid',
                                  collect=['FAIL'], heap='2g')
    by_bid = {r['bid']: r for r in recs}
    fails, drift, esc = [], [], []
    for payload in stats['collected']['FAIL']:
        rec = by_bid[payload['bid']]
        for f in payload['fails']:
            if f[0] == 'ESC':
                esc.append((rec['meas'], rec['t'], f[1], f[2], f[3]))
            else:
                fails.append({'prop': f[0], 'clause': f[1], 'detail': f[2:], 'engine': 'E1',
                              'case': {'kind': 'arith', 'api': 'filter_pair', 'meas': rec['meas'],
                                       't': rec['t'], 'n': f[2], 'm_or_slot': f[3]}})
    # (d) witness tables through the public API: every grid point x size, rotating call kinds
    rng = random.Random(seed)
    api_cases = []
    step = 1 if tier == 'thorough' else 1
    for gi, (meas, t, N) in enumerate(g):
        if meas == 'OVERLAP':
            continue
        for n in range(1, N + 1, step):
            k = min_overlap(meas, t, n)
            if not 1 <= k <= n:
                continue
            sel = (gi + n) % 4
            what = [JOIN_OF[meas], JOIN_OF[meas], 'POSITION', 'PREFIX'][sel]
            api_cases.append(witness_case(meas, t, n, k, what, rng, 'L' if (gi + n) % 3 else 'R'))
    # escalations of inadmissible bound-function values: all call kinds on the witness of that size
    for meas, t, why, a, b in esc[:3000]:
        if meas == 'OVERLAP' or a < 1:
            continue
        k = min_overlap(meas, t, a)
        if 1 <= k <= a:
            for what in (JOIN_OF[meas], 'PREFIX', 'POSITION', 'SIZE'):
                for side in ('L', 'R'):
                    c = witness_case(meas, t, a, k, what, rng, side)
                    c['_escalated'] = why
                    api_cases.append(c)
    # edit distance: run in ONE process, in a fixed order (q = 1, 2, 3 with equal thresholds and q-gram counts)
    ed_items = [(1000000 + i, c) for i, c in enumerate(ed_witness_cases())]
    items = [(i + 1, c) for i, c in enumerate(api_cases)]
    runner.log('E1: %d public-API calls on witness tables (%d escalations) + %d edit-distance witnesses' % (
        len(items), len(esc), len(ed_items)))
    arecs = runner.pmap(run_api_case, items)
    arecs += runner.pmap(run_api_case, ed_items, nproc=1)
    items = items + ed_items
    averd, astats = runner.validate(arecs, 'TraceAPI', 'e1a', batch=600)
    by_tid = dict(items)
    for tid, v in averd.items():
        for f in v['fails']:
            fails.append({'prop': f[0], 'clause': f[1], 'detail': f[2:], 'case': by_tid[tid], 'engine': 'E1'})
    if esc:
        kinds = {}
        for e in esc:
            kinds[e[2]] = kinds.get(e[2], 0) + 1
        drift.append('E1 bound-function values outside the admissibility envelope: %s (first: %s); the public '
                     'API verdicts on the witness tables decide' % (kinds, esc[0]))
    if not internal:
        drift.append('E1 filter_utils bound functions not callable as expected')
    samples = [{'meas': r['meas'], 't': r['t'], 'N': r['N'], 'prefix[0..8]': r['prefix'][:9], 'lb[0..8]': r['lb'][:9],
                'ub[0..8]': r['ub'][:9], 'first_witness': r['wit'][:1]} for r in recs[49:51]]
    return {'engine': 'E1', 'cases': points + len(items), 'traces': len(recs) + len(arecs),
            'states': stats['states'] + astats['states'], 'transitions': stats['transitions'] + astats['transitions'],
            'fails': fails, 'drift': drift, 'samples': samples, 'exhaustive': True,
            'spec_runs': ['TraceArith: %d observations in %d TLC runs' % (points, stats['tlc_runs']),
                          'TraceAPI: %d witness calls in %d TLC runs' % (len(arecs), astats['tlc_runs'])],
            'rule': 'every token count up to N for each of %d (measure, threshold) grid points: bound functions, '
                    'SizeFilter.filter_pair on all count pairs, worst-case witnesses on filter_pair, joins and '
                    'filter_tables' % len(g)}


def replay(case):
    if case.get('kind') == 'arith':
        rec = run_batch((1, case['meas'], case['t'], max(8, min(128, int(case['n']) + 2))))
        v, st = runner.validate([rec], 'TraceArith', 'replay-e1', batch=1, tag='DONE', id_key='bid', collect=['FAIL'])
        fails = [{'prop': f[0], 'clause': f[1], 'detail': f[2:]} for p in st['collected']['FAIL']
                 for f in p['fails'] if f[0] != 'ESC']
        return fails, {'meas': rec['meas'], 't': rec['t']}
    rec = run_api_case((1, case))
    verdicts, _ = runner.validate([rec], 'TraceAPI', 'replay-e1')
    return [{'prop': f[0], 'clause': f[1], 'detail': f[2:]} for f in verdicts[1]['fails']], rec
