"""Engine E3 - small tables.

TLC enumerates every pair of small tables (spec/GenTables.tla for token sets,
spec/GenStrTables.tla for strings); each pair is executed on the real joins
and filter_tables under several configurations (operators, thresholds, flags,
output attributes, n_jobs, index labels, column order), and every execution is
validated by TLC against spec/TraceAPI.tla.
"""
import random

from .. import config, record, runner, tlc, workertrace

THRESHOLDS = [[1, 3], [1, 2], [2, 3], [1, 1], [3, 10], [7, 10], [4, 5], [5, 7], [41, 100],
              [58, 100], [82, 100], [1, 4], [1, 7], [2, 7], [9, 10],
              # thresholds that need more than two / four decimals
              [33333, 100000], [33334, 100000], [66667, 100000], [70711, 100000], [49999, 100000], [618, 1000],
              # four-decimal neighbours of 1/3, 2/3, 5/7 (a score rounded before the comparison lands on them)
              [3333, 10000], [3334, 10000], [6667, 10000], [6666, 10000], [7143, 10000]]
OUTS = [None, None, [], ['a'], ['b', 'a'], ['s'], ['id', 'a'], ['a', 'a'], ['b', 's', 'a'],
        ['a', 'b', 'a'], ['s', 's'], ['d'], ['d', 'a'], ['a', 'd', 'b'], ['b', 'd', 's', 'a'],
        ['id', 'a', 'id'], ['id', 'id'], ['a', 'id', 's', 'id']]
COLORDERS = [['id', 's', 'a', 'b'], ['a', 's', 'b', 'id'], ['s', 'b', 'id', 'a'], ['b', 'a', 's', 'id']]
LKEYS = [2, 3, 1, 5, 4, 6, 7, 8]
RKEYS = [12, 11, 13, 15, 14, 16, 17, 18]
SET_JOINS = ['jaccard_join', 'cosine_join', 'dice_join', 'overlap_coefficient_join', 'overlap_join']
FILTS = ['SIZE', 'PREFIX', 'POSITION', 'SUFFIX']
FMEAS = ['JACCARD', 'COSINE', 'DICE', 'OVERLAP']


def index_labels(rng, n):
    mode = rng.choice(['default', 'default', 'shift', 'rev', 'dup', 'str'])
    if mode == 'default':
        return None
    if mode == 'shift':
        return [10 + 3 * i for i in range(n)]
    if mode == 'rev':
        return list(range(n, 0, -1))
    if mode == 'dup':
        return [7] * n
    return ['r%d' % (i % 2) for i in range(n)]


KEYKINDS = ['int', 'int', 'int', 'str', 'neg', 'float', 'big']


def key_value(kind, k):
    return {'int': k, 'str': 'key-%d' % k, 'neg': -k, 'float': k + 0.5, 'big': 2 ** 60 + k}[kind]


def table_spec(rng, side, values, render, sdtype='object'):
    """values: list of abstract join values (None = missing)."""
    kind = rng.choice(KEYKINDS)
    keys = [key_value(kind, k) for k in (LKEYS if side == 'L' else RKEYS)]
    order = list(rng.choice(COLORDERS))
    order.insert(rng.randrange(len(order) + 1), 'd')
    dkind = rng.choice(['dt_ns', 'td_ns', 'float', 'bool', 'dt_ns'])
    rows = []
    for i, v in enumerate(values):
        dval = {'dt_ns': 1700000008869733641 + 1000000007 * i + (0 if side == 'L' else 5),
                'td_ns': 86400000000123 * (i + 1) + (0 if side == 'L' else 7),
                'float': 0.25 + i + (0 if side == 'L' else 100), 'bool': bool((i + (side == 'R')) % 2)}[dkind]
        cells = {'id': keys[i], 'd': dval, 's': None if v is None else render(v),
                 'a': (100 if side == 'L' else 200) + 7 * i,
                 'b': None if (i + (0 if side == 'L' else 1)) % 3 == 1 else '%s%d' % ('x' if side == 'L' else 'y', i)}
        rows.append([cells[c] for c in order])
    return {'cols': order, 'rows': rows, 'index': index_labels(rng, len(values)),
            'strcols': ['s', 'b'] + (['id'] if kind == 'str' else []), 'sdtype': sdtype,
            'special': {'d': dkind}}


def render_set(rng):
    empty = rng.choice(['', ' ', ''])
    def render(v):
        toks = ['w%02d' % t for t in v]
        rng2 = random.Random(sum(v) * 31 + len(v))
        rng2.shuffle(toks)
        return ' '.join(toks) if toks else empty
    return render


def set_case(rng, pair, slot):
    """One configuration for a table pair of token sets."""
    which = rng.random()
    case = {'tok': {'kind': 'ws', 'rs': rng.choice([1, 1, 0])}}
    if which < 0.5:
        api = SET_JOINS[(slot + rng.randrange(5)) % 5]
        case.update(kind='join', api=api, meas=record.JOINS[api], filt='NONE',
                    op=rng.choice(['>=', '>=', '>', '=']), sc=rng.choice([1, 1, 0]))
    elif which < 0.92:
        filt = rng.choice(FILTS)
        case.update(kind='ftab', api=filt + '.filter_tables', meas=rng.choice(FMEAS), filt=filt,
                    op='>=', sc=0)
        case['tok']['rs'] = 1          # C04 assumes a set-returning tokenizer
        case['prewarm'] = 1 if rng.random() < 0.1 else 0
    else:
        case.update(kind='ftab', api='OVERLAP.filter_tables', meas='OVERLAP', filt='OVERLAP',
                    op=rng.choice(['>=', '>', '=']), sc=rng.choice([0, 1]))
        case['tok']['rs'] = 1
    case['t'] = rng.choice([[1, 1], [1, 1], [2, 1], [3, 1], [3, 2], [5, 2]]) if case['meas'] == 'OVERLAP' else rng.choice(THRESHOLDS)
    case['ae'] = rng.choice([1, 0])
    case['am'] = rng.choice([0, 1])
    case['lout'] = rng.choice(OUTS)
    case['rout'] = rng.choice(OUTS)
    case['lpre'], case['rpre'] = rng.choice([('l_', 'r_'), ('l_', 'r_'), ('left.', 'r'), ('', 'R_')])
    case['n_jobs'] = rng.choice([1, 1, 1, 1, 1, 1, 2, 3])
    case['progress'] = 1 if rng.random() < 0.06 else 0
    sdtype = rng.choice(['object', 'object', 'str', 'string'])
    render = render_set(rng)
    case['L'] = table_spec(rng, 'L', [None if v == [0] else v for v in pair['L']], render, sdtype)
    case['R'] = table_spec(rng, 'R', [None if v == [0] else v for v in pair['R']], render, sdtype)
    return case


def str_case(rng, pair, slot):
    """One configuration for a table pair of strings (edit distance)."""
    q = rng.choice([2, 2, 1, 3])
    case = {'tok': {'kind': 'qg', 'q': q, 'pad': rng.choice([1, 1, 0]), 'rs': rng.choice([0, 0, 1])}}
    which = rng.random()
    overlap_on_strings = which >= 0.88
    if overlap_on_strings:
        # the OverlapFilter / overlap_join over short strings with a set-mode q-gram tokenizer: with padding a string of
        # n characters has n + q - 1 q-grams, the empty string has one
        case['tok']['rs'] = 1
        if rng.random() < 0.5:
            case.update(kind='ftab', api='OVERLAP.filter_tables', meas='OVERLAP', filt='OVERLAP',
                        op=rng.choice(['>=', '>', '=']), sc=rng.choice([0, 1]))
        else:
            case.update(kind='join', api='overlap_join', meas='OVERLAP', filt='NONE',
                        op=rng.choice(['>=', '>', '=']), sc=rng.choice([1, 1, 0]))
    elif which < 0.6:
        case.update(kind='join', api='edit_distance_join', meas='EDIT_DISTANCE', filt='NONE',
                    op=rng.choice(['<=', '<=', '<', '=']), sc=rng.choice([1, 1, 0]))
        if q == 2 and case['tok']['pad'] == 1 and rng.random() < 0.3:
            case['default_tok'] = 1
            case['tok']['rs'] = 0
    else:
        filt = rng.choice(FILTS)
        case.update(kind='ftab', api=filt + '.filter_tables', meas='EDIT_DISTANCE', filt=filt,
                    op='<=', sc=0)
        case['tok']['rs'] = 0          # C04 assumes bags of q-grams for edit distance
        case['prewarm'] = 1 if rng.random() < 0.3 else 0   # the filter object was used before in set mode
    case['t'] = rng.choice([[0, 1], [1, 1], [1, 1], [2, 1], [3, 1], [3, 2], [5, 2]])
    if overlap_on_strings:
        case['t'] = rng.choice([[1, 1], [2, 1], [3, 1], [3, 2], [4, 1]])
    case['ae'] = rng.choice([1, 0])
    case['am'] = rng.choice([0, 1])
    case['lout'] = rng.choice(OUTS)
    case['rout'] = rng.choice(OUTS)
    case['lpre'], case['rpre'] = rng.choice([('l_', 'r_'), ('left.', 'r')])
    case['n_jobs'] = rng.choice([1, 1, 1, 1, 2, 3])
    case['progress'] = 1 if rng.random() < 0.06 else 0
    sdtype = rng.choice(['object', 'object', 'str', 'string'])
    render = lambda v: ''.join('ab'[c - 1] for c in v)
    case['L'] = table_spec(rng, 'L', [None if v == [0] else v for v in pair['L']], render, sdtype)
    case['R'] = table_spec(rng, 'R', [None if v == [0] else v for v in pair['R']], render, sdtype)
    return case


def run_case(item):
    tid, case = item
    obs, result, events, tables = record.execute(case)
    rec = record.abstract(case, obs, result, tables, tid)
    if events and obs['raised'] == '' and (workertrace.eligible(case) or workertrace.eligible_ed(case)
                                          or workertrace.eligible_oc(case) or workertrace.eligible_suffix(case)):
        try:
            if workertrace.eligible_suffix(case):
                rec['_worker'] = workertrace.build_suffix(case, events, tables, tid)
            elif workertrace.eligible_oc(case):
                rec['_worker'] = workertrace.build_oc(case, events, tables, tid)
            elif workertrace.eligible_ed(case):
                w = workertrace.build_ed(case, events, tables, tid)
                rec['_worker'] = None if w is None else (('ED',) + w[0], w[1])
            else:
                rec['_worker'] = workertrace.build_all(case, events, tables, tid)
        except Exception as exc:                     # hooks changed shape: implementation layer unavailable
            rec['_worker'] = ('error', '%s: %s' % (type(exc).__name__, exc))
    return rec


def generate(tier, seed):
    """TLC-enumerated table pairs -> concrete cases (list of (tid, case))."""
    cfgs = [('GenTables', 'GenTables_q', set_case, 3)]
    cfgs.append(('GenStrTables', 'GenStrTables_q', str_case, 2))
    cfgs.append(('GenStrTables', 'GenStrTables_q1', str_case, 3))      # 1 x 1 tables of strings up to length 4
    if tier == 'thorough':
        cfgs = [('GenTables', 'GenTables_q', set_case, 16), ('GenTables', 'GenTables_t', set_case, 2),
                ('GenTables', 'GenTables_t4', set_case, 1),
                ('GenStrTables', 'GenStrTables_q', str_case, 8), ('GenStrTables', 'GenStrTables_t', str_case, 2),
                ('GenStrTables', 'GenStrTables_q1', str_case, 8)]
    cases, gen_states = [], 0
    for module, cfg, maker, slots in cfgs:
        res = tlc.run(module, cfg, workers=1, heap='3g')
        pairs = res.tag('GEN')
        if len(pairs) != res.distinct or not pairs:
            raise runner.MachineryError('%s: %d GEN records for %d initial states' % (
                cfg, len(pairs), res.distinct))
        gen_states += res.distinct
        for pi, pair in enumerate(pairs):
            for slot in range(slots):
                rng = random.Random('%s|%s|%d|%d' % (seed, cfg, pi, slot))
                case = maker(rng, pair, slot)
                case['_src'] = '%s#%d.%d' % (cfg, pi, slot)
                cases.append(case)
    return [(i + 1, c) for i, c in enumerate(cases)], gen_states


def validate_workers(workers, name):
    """Implementation-layer validation of the worker traces built from hook events."""
    import os
    groups, broken = {}, 0
    flat = []
    for w in workers:
        if isinstance(w, list):
            flat.extend(w)
        elif w is not None:
            flat.append(w)
    for w in flat:
        if w is None:
            continue
        if w[0] == 'error' or w[1] is None:
            broken += 1
            continue
        groups.setdefault(w[0], []).append(w[1])
    drift, states, validated = [], 0, 0
    for key, recs in sorted(groups.items(), key=lambda kv: str(kv[0])):
        meas, mode, ae = key
        cfg_path = os.path.join(config.workdir('traces'), '%d-%s-%s-%s-%s.cfg' % (os.getpid(), name, meas, mode, ae))
        with open(cfg_path, 'w') as fh:
            if meas == 'SUF':
                fh.write(workertrace.CFG_SUF % (mode, 'TRUE' if ae else 'FALSE'))
            elif meas == 'OC':
                fh.write(workertrace.CFG_OC % (mode, 'TRUE' if ae else 'FALSE'))
            elif meas == 'ED':
                fh.write(workertrace.CFG_ED % (mode, 'TRUE' if ae else 'FALSE'))
            else:
                fh.write(workertrace.CFG % (meas, 'TRUE' if ae else 'FALSE', mode))
        try:
            verd, st = runner.validate(recs, {'ED': 'TraceWorkersED', 'OC': 'TraceWorkersOC', 'SUF': 'TraceWorkersSuffix'}.get(meas, 'TraceWorkers'),
                                       '%s-%s-%s-%s' % (name, meas, mode, ae), batch=1200, cfg_path=cfg_path)
        except (tlc.TLCError, runner.MachineryError) as exc:
            # hook events so far from the specification that an action cannot even be evaluated on them: this layer
            # only ever reports DRIFT; the property-level verdict on the same executions comes from TraceAPI
            drift.append('%s worker %s/%s/allow_empty=%s: %d traces could not be replayed (%s)' % (
                name, mode, meas, ae, len(recs), str(exc).splitlines()[0][:160]))
            continue
        states += st['states']
        validated += len(recs)
        for tid, v in verd.items():
            if v['fails']:
                drift.append('%s worker %s/%s/allow_empty=%s trace %s: %s' % (name, mode, meas, ae, tid, sorted(v['fails'])))
    if broken:
        drift.append('%s: %d worker runs whose hook events could not be assembled into a trace' % (name, broken))
    return drift, {'validated': validated, 'groups': len(groups), 'states': states, 'drift': len(drift)}


def summarize(case):
    keep = ('kind', 'api', 'meas', 'filt', 'op', 't', 'ae', 'am', 'sc', 'lout', 'rout', 'n_jobs', '_src')
    out = {k: case.get(k) for k in keep}
    out['L'] = [r[case['L']['cols'].index('s')] for r in case['L']['rows']]
    out['R'] = [r[case['R']['cols'].index('s')] for r in case['R']['rows']]
    return out


def run(tier, seed):
    runner.log('E3: TLC enumerates the table pairs')
    cases, gen_states = generate(tier, seed)
    runner.log('E3: executing %d cases on the library' % len(cases))
    recs = runner.pmap(run_case, cases)
    workers = [r.pop('_worker', None) for r in recs]
    runner.log('E3: TLC validates %d traces' % len(recs))
    verdicts, stats = runner.validate(recs, 'TraceAPI', 'e3')
    drift, wstats = validate_workers(workers, 'e3w')
    by_tid = dict(cases)
    fails = []
    for tid, v in verdicts.items():
        for f in v['fails']:
            fails.append({'prop': f[0], 'clause': f[1], 'detail': f[2:], 'case': by_tid[tid],
                          'engine': 'E3'})
    rng = random.Random(seed)
    samples = [summarize(c) for _, c in rng.sample(cases, 3)]
    return {'engine': 'E3', 'cases': len(cases), 'traces': len(recs) + wstats['validated'],
            'states': gen_states + stats['states'] + wstats['states'], 'transitions': stats['transitions'] + wstats['states'],
            'fails': fails, 'samples': samples, 'drift': drift,
            'worker_traces': wstats,
            'spec_runs': ['GenTables/GenStrTables: %d initial states' % gen_states,
                          'TraceAPI: %d traces in %d TLC runs' % (len(recs), stats['tlc_runs']),
                          'TraceWorkers (implementation layer, hook events): %s' % wstats],
            'exhaustive': True,
            'rule': 'all table pairs enumerated by TLC from spec/GenTables.tla and '
                    'spec/GenStrTables.tla, each under several seeded configurations'}


def replay(case):
    rec = run_case((1, case))
    verdicts, _ = runner.validate([rec], 'TraceAPI', 'replay-e3')
    return [{'prop': f[0], 'clause': f[1], 'detail': f[2:]} for f in verdicts[1]['fails']], rec
