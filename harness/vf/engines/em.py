"""Engine EM - TLC model checking of the specification itself.

Runs the exhaustive configurations of spec/Workers.tla (the per-chunk worker
with every admissible arithmetic), spec/Pipeline.tla (every chunking and
completion order, flag discipline, missing pairs, ids) and
spec/FilterSoundness.tla (every arrangement of two token sets) and
spec/Matcher.tla (cache switch, every chunking), plus the
deliberately sabotaged configurations that must violate an invariant (so the
invariants are known not to be vacuous).  A failure here is a defect of the
specification, i.e. a machinery failure, never a violation of the code.
"""
import glob
import os

from .. import config, runner, tlc


def jobs_for(tier):
    t = 'q' if tier == 'quick' else 't'
    jobs = []
    for path in sorted(glob.glob(os.path.join(config.SPEC, 'Workers_%s_*.cfg' % t))):
        jobs.append(('Workers', os.path.basename(path)[:-4], None))
    for path in sorted(glob.glob(os.path.join(config.SPEC, 'Pipeline_%s_*.cfg' % t))):
        jobs.append(('Pipeline', os.path.basename(path)[:-4], None))
    for path in sorted(glob.glob(os.path.join(config.SPEC, 'Workers_sab_*.cfg'))):
        jobs.append(('Workers', os.path.basename(path)[:-4], 'Complete'))
    jobs.append(('Pipeline', 'Pipeline_sab_loseboundary', 'JoinResult'))
    jobs.append(('Pipeline', 'Pipeline_sab_norestore', 'FlagRestored'))
    # liveness under weak fairness: every call ends, every chunk is worked on, the flag is eventually switched back
    jobs.append(('Pipeline', 'Pipeline_live', None))
    jobs.append(('Pipeline', 'Pipeline_live_sab', 'temporal:FlagEventuallyRestored'))
    jobs.append(('Session', 'Session_live', None))
    for path in sorted(glob.glob(os.path.join(config.SPEC, 'WorkersED_%s_*.cfg' % t))):
        jobs.append(('WorkersED', os.path.basename(path)[:-4], None))
    jobs.append(('WorkersED', 'WorkersED_sab_q2', 'Complete'))
    for path in sorted(glob.glob(os.path.join(config.SPEC, 'WorkersOC_%s_*.cfg' % t))):
        jobs.append(('WorkersOC', os.path.basename(path)[:-4], None))
    jobs.append(('WorkersOC', 'WorkersOC_sab', 'Exact'))
    for path in sorted(glob.glob(os.path.join(config.SPEC, 'WorkersSuffix_%s_*.cfg' % t))):
        jobs.append(('WorkersSuffix', os.path.basename(path)[:-4], None))
    jobs.append(('WorkersSuffix', 'WorkersSuffix_sab', 'Safe'))
    jobs.append(('Projection', 'Projection_%s' % t, None))
    jobs.append(('Projection', 'Projection_sab', 'CellsRight'))
    jobs.append(('Matcher', 'Matcher_%s' % t, None))
    jobs.append(('Matcher', 'Matcher_sab_zip', 'Result'))
    jobs.append(('FilterSoundness', 'FilterSoundness_%s_safe' % t, None))
    jobs.append(('FilterSoundness', 'FilterSoundness_%s_suffix' % t, None))
    jobs.append(('FilterSoundness', 'FilterSoundness_suffixA', 'SuffixSafe'))
    return jobs


def apalache(module, inv, init='Init', length=1):
    """Run Apalache on spec/<module>.tla; returns (ok, seconds).  ok = invariant holds for unbounded integers."""
    import shutil
    import subprocess
    import tempfile
    import time
    out = tempfile.mkdtemp(prefix='apa-', dir=config.workdir('tlc'))
    t0 = time.time()
    try:
        proc = subprocess.run(['apalache-mc', 'check', '--init=' + init, '--next=Next', '--inv=' + inv,
                               '--length=%d' % length,
                               '--out-dir=' + out, os.path.join(config.SPEC, module + '.tla')],
                              cwd=config.SPEC, stdout=subprocess.PIPE, stderr=subprocess.STDOUT, timeout=900)
        text = proc.stdout.decode('utf-8', 'replace')
    finally:
        shutil.rmtree(out, ignore_errors=True)
    if 'EXITCODE: OK' in text:
        return True, time.time() - t0
    if 'The outcome is: Error' in text:
        return False, time.time() - t0
    raise runner.MachineryError('apalache failed on %s:\n%s' % (module, text[-1500:]))


def run(tier, seed):
    jobs = jobs_for(tier)
    runner.log('EM: %d TLC model-checking runs of the specification' % len(jobs))
    specs = []
    per = 2 if tier == 'quick' else 4
    for module, cfg, expect in jobs:
        specs.append(dict(module=module, cfg=cfg, workers=per, heap='3g', timeout=7200,
                          allow_violation=True, label=cfg))
    results = tlc.run_many(specs, parallel=max(1, config.NCPU // per))
    checks, states, trans = [], 0, 0
    for (module, cfg, expect), res in zip(jobs, results):
        states += res.distinct
        trans += res.generated
        if expect is None:
            if res.violation:
                raise runner.MachineryError('specification check %s failed:\n%s' % (cfg, res.violation[-2500:]))
            checks.append('%s: %d distinct states, %d generated, all invariants hold (%.0fs)' % (
                cfg, res.distinct, res.generated, res.wall))
        else:
            needle = ('Temporal property %s was violated' % expect.split(':')[1]) if expect.startswith('temporal:') \
                else ('Invariant %s is violated' % expect)
            if not res.violation or needle not in res.violation:
                raise runner.MachineryError('sabotaged configuration %s did not violate %s: the invariant is vacuous' % (cfg, expect))
            checks.append('%s: violates %s as intended (non-vacuity)' % (cfg, expect))
    # unbounded arithmetic lemmas (Apalache, linear integer arithmetic): Jaccard / Dice bounds for ALL sizes
    from concurrent.futures import ThreadPoolExecutor
    mods = sorted(os.path.basename(f)[:-4] for f in glob.glob(os.path.join(config.SPEC, 'MC_Bounds_*.tla')))
    if tier == 'quick':
        mods = mods[:3]
    with ThreadPoolExecutor(max_workers=4) as pool:
        outs = list(pool.map(lambda mname: apalache(mname, 'Lemma'), mods))
        bad = apalache(mods[0], 'WrongLemma')
    for mname, (ok, secs) in zip(mods, outs):
        if not ok:
            raise runner.MachineryError('Apalache: Bounds lemma fails for %s' % mname)
        checks.append('%s (Apalache, unbounded sizes): JaccardLemma /\\ DiceLemma hold (%.0fs)' % (mname, secs))
    if bad[0]:
        raise runner.MachineryError('Apalache accepted the deliberately false WrongLemma')
    checks.append('%s: WrongLemma refuted by Apalache as intended (non-vacuity)' % mods[0])
    # the switch / restore discipline for call histories of any length: inductive invariant of SessionInd.tla
    steps = [('Init', 'IndInv', 0), ('IndInv', 'IndInv', 1), ('IndInv', 'Goal', 0)]
    with ThreadPoolExecutor(max_workers=4) as pool:
        souts = list(pool.map(lambda st: apalache('MC_SessionInd', st[1], init=st[0], length=st[2]), steps))
        sbad = apalache('MC_SessionInd', 'WrongInv', init='Init', length=4)
    for (ini, inv, ln), (ok, secs) in zip(steps, souts):
        if not ok:
            raise runner.MachineryError('Apalache: SessionInd step %s => %s (length %d) fails' % (ini, inv, ln))
    if sbad[0]:
        raise runner.MachineryError('Apalache accepted the deliberately false WrongInv of SessionInd')
    checks.append('MC_SessionInd (Apalache, histories of any length): Init => IndInv, IndInv /\\ Next => IndInv\', '
                  'IndInv => ModesRestored /\\ NoLeak (%.0fs); WrongInv refuted as intended' % sum(x[1] for x in souts))
    return {'engine': 'EM', 'cases': len(jobs), 'traces': 0, 'states': states, 'transitions': trans,
            'fails': [], 'samples': [{'config': j[1], 'module': j[0], 'expects_violation_of': j[2]} for j in jobs[:2] + jobs[-2:]],
            'model_checks': checks, 'exhaustive': True,
            'spec_runs': ['%d TLC runs: Workers, Pipeline, FilterSoundness (+ sabotaged variants)' % len(jobs)],
            'rule': 'exhaustive TLC model checking of the worker state machine (all table pairs in scope x thresholds x '
                    'operators x admissible arithmetic choices), the pipeline (all chunkings and completion orders) and '
                    'the pruning logic (all arrangements of two token sets in scope)'}


def replay(case):
    return [], {}
