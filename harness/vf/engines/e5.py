"""Engine E5 - apply_matcher and filter_candset over TLC-enumerated candidate sets."""
import random

import pandas as pd

from .. import lib, record, runner, tlc

THRESHOLDS = [[1, 2], [1, 3], [2, 3], [1, 1], [3, 10], [3, 4]]
VALUE_POOL = ['a b', 'a', 'b c', 'a b c', '', ' ', 'c', 'a c']
OUTS = [None, None, [], ['a'], ['m', 'a'], ['id', 'a'], ['a', 'a'], ['m']]


class SimTable(object):
    """Similarity given by a table; used as a bound method (pickling path of the matcher)."""

    def __init__(self, table):
        self.table = table

    @staticmethod
    def _key(v):
        return v if isinstance(v, str) else ' '.join(v)

    def score(self, a, b):
        return self.table[(self._key(a), self._key(b))]


def plain_jaccard(a, b):
    a, b = set(a), set(b)
    if not a and not b:
        return 1.0
    return float(len(a & b)) / float(len(a | b))


def make_long_case(rng, gen, slot):
    """Long candidate set over 4 x 4 keys split over gen['jobs'] jobs: almost every row is kept."""
    cand, miss = gen['C'], set(gen['M'])
    kind = 'matcher' if slot % 2 == 0 else 'candset'
    case = {'kind': kind, 'am': slot % 4 < 2, 'n_jobs': gen['jobs'], 't': [1, 2], 'simkind': 'jaccard',
            'op': '>=', 'tok': {'kind': 'ws', 'rs': 1}}
    case['am'] = int(case['am'])
    vals = {k: ('a b' if k != 7 else 'c') for k in range(1, 9)}
    for k in miss:
        vals[k] = None
    def tab(keys, base):
        return {'cols': ['id', 'm', 'a'], 'rows': [[k, vals[k], base + k] for k in keys], 'index': None,
                'strcols': ['m'], 'sdtype': 'object'}
    case['L'], case['R'] = tab([1, 2, 3, 4], 100), tab([5, 6, 7, 8], 200)
    if kind == 'matcher' and slot % 4 == 2:
        # self-join: one DataFrame object passed as both tables, matched on two different attributes
        alt = {k: ('a b' if k != 2 else 'c d') for k in range(1, 9)}
        case['L'] = {'cols': ['id', 'm', 'a', 'm2'],
                     'rows': [[k, alt[k], 100 + k, vals[k]] for k in range(1, 9)], 'index': None,
                     'strcols': ['m', 'm2'], 'sdtype': 'object'}
        case['R'] = case['L']
        case['selfjoin'] = 1
        case['rattr'] = 'm2'
    ids = list(range(50, 50 + len(cand)))
    rng.shuffle(ids)
    case['C'] = {'cols': ['_id', 'l_id', 'r_id', 'extra'],
                 'rows': [[ids[j], c[0], c[1], 'e%d' % j] for j, c in enumerate(cand)],
                 'index': rng.choice([list(range(len(cand))), [3] * len(cand)])}
    # key columns of the candidate set in a dtype other than the tables' int64 key columns
    case['ckdtype'] = ['int64', 'int32', 'Int64', 'object'][(len(cand) + gen['jobs']) % 4]
    case['eq_njobs'] = 1
    if kind == 'matcher':
        case.update(sc=1, tokmode=1, lout=['a'], rout=None, lpre='l_', rpre='r_', simfn='plain')
    else:
        case.update(filt='OVERLAP', meas='OVERLAP', t=[1, 1], ae=1)
    return case


def make_case(rng, gen, slot):
    if gen.get('kind') == 'long':
        return make_long_case(rng, gen, slot)
    cand, miss = gen['C'], set(gen['M'])
    kind = 'matcher' if rng.random() < 0.6 else 'candset'
    case = {'kind': kind, 'am': rng.choice([0, 1]), 'n_jobs': rng.choice([1, 1, 2, 3, 4]),
            't': rng.choice(THRESHOLDS)}
    table_sim = kind == 'matcher' and rng.random() < 0.5
    case['simkind'] = 'table' if table_sim else 'jaccard'
    vals = {}
    for k in (1, 2, 3, 4):
        if k in miss:
            vals[k] = None
        elif table_sim:
            vals[k] = '%s%d' % ('L' if k < 3 else 'R', k)
        else:
            vals[k] = rng.choice(VALUE_POOL)
    order_l = rng.choice([['id', 'm', 'a'], ['a', 'm', 'id'], ['m', 'id', 'a']])
    order_r = rng.choice([['id', 'm', 'a'], ['a', 'id', 'm']])
    other = rng.random() < 0.35          # a second string column: the same objects filtered on it first
    def tab(keys, order, base):
        rows = []
        order = order + (['m2'] if other else [])
        for j, k in enumerate(keys):
            cells = {'id': k, 'm': vals[k], 'a': base + j, 'm2': ['c', 'a b c', '', 'b'][(k + j) % 4]}
            rows.append([cells[c] for c in order])
        return {'cols': order, 'rows': rows, 'index': rng.choice([None, [9, 9], ['p', 'q'], [1, 0]]),
                'strcols': ['m'] + (['m2'] if other else []), 'sdtype': rng.choice(['object', 'object', 'str', 'string'])}
    case['pre_attr'] = 'm2' if other else None
    lkeys, rkeys = [1, 2], [3, 4]
    if rng.random() < 0.5:
        lkeys, rkeys = [2, 1], [4, 3]
    case['L'], case['R'] = tab(lkeys, order_l, 100), tab(rkeys, order_r, 200)
    ids = rng.sample([5, 3, 9, 4, 0, 7, 12], len(cand))
    ixmode = rng.choice(['default', 'dup', 'str', 'shift'])
    index = {'default': list(range(len(cand))), 'dup': [4] * len(cand),
             'str': ['r%d' % (j % 2) for j in range(len(cand))],
             'shift': [10 + 2 * j for j in range(len(cand))]}[ixmode]
    case['C'] = {'cols': ['_id', 'l_id', 'r_id', 'extra'],
                 'rows': [[ids[j], c[0], c[1], 'e%d' % j] for j, c in enumerate(cand)], 'index': index}
    if kind == 'matcher':
        case['op'] = rng.choice(['>=', '>', '<=', '<', '=', '!='])
        case['sc'] = rng.choice([1, 1, 0])
        case['tokmode'] = rng.choice([1, 1, 0]) if table_sim else 1
        case['tok'] = {'kind': 'ws', 'rs': rng.choice([1, 0]) if table_sim else 1}
        case['lout'], case['rout'] = rng.choice(OUTS), rng.choice(OUTS)
        case['lpre'], case['rpre'] = rng.choice([('l_', 'r_'), ('left_', 'rr.')])
        if table_sim:
            p, q = case['t']
            # score classes: clearly below / on / clearly above the threshold, and one unit in the last place off it
            classes = [(4 * p - 1, 4 * q, 0), (p, q, 0), (4 * p + 1, 4 * q, 0), (p, q, 0), (p, q, 1), (p, q, -1)]
            case['simtab'] = [[l, r] + list(rng.choice(classes)) for l in (1, 2) for r in (3, 4)]
        else:
            case['simfn'] = rng.choice(['plain', 'bound'])
    else:
        filt = rng.choice(['SIZE', 'PREFIX', 'POSITION', 'SUFFIX', 'OVERLAP', 'OVERLAP'])
        case['filt'] = filt
        case['tok'] = {'kind': 'ws', 'rs': 1}
        if filt == 'OVERLAP' and rng.random() < 0.4:
            # q-gram tokenizers: with padding the empty string has the token made of the padding characters
            case['tok'] = {'kind': 'qg', 'q': 2, 'pad': rng.choice([1, 1, 0]), 'rs': 1}
            for side in ('L', 'R'):            # an empty string on both sides in half of these cases
                mi = case[side]['cols'].index('m')
                if rng.random() < 0.7 and case[side]['rows'][0][mi] is not None:
                    case[side]['rows'][0][mi] = ''
        if filt == 'OVERLAP':
            case['op'] = rng.choice(['>=', '>', '='])
            case['t'] = rng.choice([[1, 1], [1, 1], [2, 1], [3, 1], [3, 2], [5, 2]])    # the overlap size may be fractional
            case['meas'] = 'OVERLAP'
        else:
            case['op'] = '>='
            case['meas'] = rng.choice(['JACCARD', 'COSINE', 'DICE', 'OVERLAP'])
            if case['meas'] == 'OVERLAP':
                case['t'] = [rng.choice([1, 2]), 1]
        case['ae'] = rng.choice([1, 0])
    return case


def make_df_cand(spec, kdtype=None):
    df = pd.DataFrame(spec['rows'], columns=spec['cols'])
    if not spec['rows']:
        df = pd.DataFrame({c: pd.Series([], dtype=object if c == 'extra' else 'int64') for c in spec['cols']})
    df.index = list(spec['index'])
    if kdtype and kdtype != 'int64':
        for c in ('l_id', 'r_id'):
            df[c] = df[c].astype(kdtype)
    return df


def run_case(item):
    import joblib
    import py_stringmatching as sm
    tid, case = item
    ssj = lib.load()
    vh = lib.hooks_module()
    rattr = case.get('rattr', 'm')
    ltable = record.make_df(case['L'], 'm')
    rtable = ltable if case.get('selfjoin') else record.make_df(case['R'], 'm')
    cand = make_df_cand(case['C'], case.get('ckdtype'))
    tok = record.make_tokenizer(case['tok'])
    snaps = [record.snapshot(d) for d in (ltable, rtable, cand)]
    fb = int(bool(tok.get_return_set()))
    book = record.Codebook()
    lrows = [{'k': record.key_code(r['id']), 'p': 0 if record.is_missing(r['m']) else 1,
              'v': [], 'nonempty': int(bool(r['m'])) if not record.is_missing(r['m']) else 0,
              'c': [book.code(r[c]) for c in ltable.columns]} for r in ltable.to_dict('records')]
    rrows = [{'k': record.key_code(r['id']), 'p': 0 if record.is_missing(r[rattr]) else 1,
              'v': [], 'nonempty': int(bool(r[rattr])) if not record.is_missing(r[rattr]) else 0,
              'c': [book.code(r[c]) for c in rtable.columns]} for r in rtable.to_dict('records')]
    # token ids (set semantics) for the jaccard / overlap judgements
    oracle = record.make_tokenizer(case['tok'], return_set=True)
    vocab = sorted({t for tab, col in ((ltable, 'm'), (rtable, rattr)) for v in tab[col].tolist()
                    if not record.is_missing(v) for t in oracle.tokenize(v)})
    ids = {t: j + 1 for j, t in enumerate(vocab)}
    for rows, tab, col in ((lrows, ltable, 'm'), (rrows, rtable, rattr)):
        for row, v in zip(rows, tab[col].tolist()):
            if not record.is_missing(v):
                row['v'] = sorted(ids[t] for t in set(oracle.tokenize(v)))
    rec = {'tid': tid, 'kind': case['kind'], 'op': case['op'], 't': case['t'], 'am': case['am'],
           'sc': case.get('sc', 0), 'simkind': case['simkind'], 'simtab': case.get('simtab', []),
           'filt': case.get('filt', 'NONE'), 'meas': case.get('meas', ''), 'ae': int(case.get('ae', 1)),
           'L': lrows, 'R': rrows, 'fp': [],
           'lkey': 'id', 'rkey': 'id', 'lpre': case.get('lpre', 'l_'), 'rpre': case.get('rpre', 'r_'),
           'lcols': list(ltable.columns), 'rcols': list(rtable.columns),
           'lout': list(case.get('lout') or []), 'rout': list(case.get('rout') or []),
           'ccols': list(cand.columns)}
    rec['C'] = [{'id': r[0], 'l': r[1], 'r': r[2], 'x': book.code(r[3]), 'ix': book.code(ix)}
                for r, ix in zip(case['C']['rows'], case['C']['index'])]
    thr = case['t'][0] / case['t'][1]
    raised, result = '', None
    if vh:
        vh.drain()
    def invoke(nj):
        with joblib.parallel_config(backend='threading'):
            if case['kind'] == 'matcher':
                if case['simkind'] == 'table':
                    lv = {r['id']: r['m'] for r in ltable.to_dict('records')}
                    rv = {r['id']: r['m'] for r in rtable.to_dict('records')}
                    table = {}
                    import math
                    for l, r, num, den, ulp in case['simtab']:
                        if not record.is_missing(lv[l]) and not record.is_missing(rv[r]):
                            table[(lv[l], rv[r])] = num / den if ulp == 0 else math.nextafter(num / den, ulp * math.inf)
                    simfn = SimTable(table).score
                elif case.get('simfn') == 'bound':
                    simfn = sm.Jaccard().get_raw_score
                else:
                    simfn = plain_jaccard
                return ssj.apply_matcher(cand, 'l_id', 'r_id', ltable, rtable, 'id', 'id', 'm', rattr,
                                           tok if case.get('tokmode', 1) else None, simfn, thr, case['op'],
                                           allow_missing=bool(case['am']), l_out_attrs=case.get('lout'),
                                           r_out_attrs=case.get('rout'), l_out_prefix=rec['lpre'],
                                           r_out_prefix=rec['rpre'], out_sim_score=bool(case.get('sc', 1)),
                                           n_jobs=nj, show_progress=False)
            else:
                if case['filt'] == 'OVERLAP':
                    flt = ssj.OverlapFilter(tok, record.threshold_value(case), case['op'], allow_missing=bool(case['am']))
                else:
                    cls = getattr(ssj, record.FILTERS[case['filt']])
                    fthr = case['t'][0] if case['meas'] == 'OVERLAP' else thr
                    flt = cls(tok, case['meas'], fthr, allow_empty=bool(case.get('ae', 1)),
                              allow_missing=bool(case['am']))
                lv = {r['id']: r['m'] for r in ltable.to_dict('records')}
                rv = {r['id']: r['m'] for r in rtable.to_dict('records')}
                rec['fp'] = [int(bool(flt.filter_pair(lv[c[1]], rv[c[2]]))) for c in case['C']['rows']]
                if case.get('pre_attr') and nj == case['n_jobs']:
                    try:
                        flt.filter_candset(cand, 'l_id', 'r_id', ltable, rtable, 'id', 'id', case['pre_attr'],
                                           case['pre_attr'], n_jobs=1, show_progress=False)
                    except Exception:
                        pass
                    if vh:
                        vh.drain()
                return flt.filter_candset(cand, 'l_id', 'r_id', ltable, rtable, 'id', 'id', 'm', 'm',
                                            n_jobs=nj, show_progress=False)
    try:
        result = invoke(case['n_jobs'])
    except Exception as exc:
        raised = type(exc).__name__
        case['_exc'] = '%s: %s' % (raised, str(exc)[:300])
    events = vh.drain() if vh else []
    starts = [e for e in events if e['ev'] == 'matcher_start']
    ends = [e for e in events if e['ev'] in ('matcher_split_end', 'candset_split_end')]
    rec['tokmode'] = int(case.get('tokmode', 1)) if case['kind'] == 'matcher' else 0
    rec['hook'] = {'have': 0, 'cache': 0, 'nin': 0}
    if raised == '' and ends and (case['kind'] != 'matcher' or len(starts) == 1):
        rec['hook'] = {'have': 1, 'cache': int(bool(starts[0]['cache'])) if starts else 0,
                       'nin': sum(int(e['n_in']) for e in ends)}
    def abstract_rows(result):
        rows = []
        cols = [str(c) for c in result.columns]
        cix = {c: j for j, c in enumerate(cols)}
        data = result.to_dict('split')
        nl, nr = len(record.dedup(case.get('lout'), 'id')), len(record.dedup(case.get('rout'), 'id'))
        for row, ix in zip(data['data'], data['index']):
            if case['kind'] == 'matcher':
                lk, rk = rec['lpre'] + 'id', rec['rpre'] + 'id'
                ok = len(cols) == 3 + nl + nr + rec['sc'] and len(set(cols)) == len(cols)
                r = {'id': record.key_code(row[cix['_id']]) if '_id' in cix else -1,
                     'l': record.key_code(row[cix[lk]]) if lk in cix else -1,
                     'r': record.key_code(row[cix[rk]]) if rk in cix else -1,
                     's': record.score_code(row[cix['_sim_score']], 'OVERLAP_COEFFICIENT') if '_sim_score' in cix else [0, 0, 0],
                     'la': [book.code(row[3 + j], add=False) for j in range(nl)] if ok else [],
                     'ra': [book.code(row[3 + nl + j], add=False) for j in range(nr)] if ok else [],
                     'x': 0, 'ix': 0}
            else:
                r = {'id': record.key_code(row[cix['_id']]) if '_id' in cix else -1,
                     'l': record.key_code(row[cix['l_id']]) if 'l_id' in cix else -1,
                     'r': record.key_code(row[cix['r_id']]) if 'r_id' in cix else -1,
                     's': [0, 0, 0], 'la': [], 'ra': [],
                     'x': book.code(row[cix['extra']], add=False) if 'extra' in cix else -1,
                     'ix': book.code(ix, add=False)}
            rows.append(r)
        return cols, rows

    obs = {'raised': raised, 'fb': fb, 'fa': int(bool(tok.get_return_set())), 'cols': [], 'rows': [],
           'lsame': record.same_as_snapshot(ltable, snaps[0]), 'rsame': record.same_as_snapshot(rtable, snaps[1]),
           'csame': record.same_as_snapshot(cand, snaps[2])}
    if raised == '' and not isinstance(result, pd.DataFrame):
        obs['raised'] = 'NotADataFrame'
    elif raised == '':
        obs['cols'], obs['rows'] = abstract_rows(result)
        if case.get('eq_njobs') and case['n_jobs'] != 1:
            # the same call with one job on the same objects: compared by TLC with the EQ law (C10)
            try:
                r1 = invoke(1)
                flat = lambda rows: [[r['id'], r['l'], r['r']] + r['s'] + [r['x'], r['ix']] + r['la'] + r['ra'] for r in rows]
                rec['eq'] = {'A': flat(abstract_rows(r1)[1]), 'B': flat(obs['rows'])}
            except Exception as exc:
                rec['eq'] = {'A': [[-1, 0, 0]], 'B': []}       # the one-job run raised although the k-job run did not
    if obs['fa'] != fb:
        tok.set_return_set(bool(fb))
    rec['obs'] = obs
    return rec


def run(tier, seed):
    cfg = 'GenCandsets_q' if tier == 'quick' else 'GenCandsets_t'
    slots = 8 if tier == 'quick' else 24
    res = tlc.run('GenCandsets', cfg, workers=1)
    gens = res.tag('GEN')
    if len(gens) != res.distinct or not gens:
        raise runner.MachineryError('GenCandsets: %d GEN records for %d states' % (len(gens), res.distinct))
    cases = []
    for gi, gen in enumerate(gens):
        if gen.get('kind') != 'long':
            slot_list = range(slots)
        elif len(gen['C']) <= 16:
            slot_list = range(4)
        else:
            slot_list = [(len(gen['C']) % 2) * 2, (len(gen['C']) % 2) * 2 + 1]
        for slot in slot_list:
            rng = random.Random('%s|%s|%d|%d' % (seed, cfg, gi, slot))
            c = make_case(rng, gen, slot)
            c['_src'] = '%s#%d.%d' % (cfg, gi, slot)
            cases.append(c)
    items = [(j + 1, c) for j, c in enumerate(cases)]
    runner.log('E5: %d matcher / candset cases from %d TLC-enumerated candidate sets' % (len(items), len(gens)))
    recs = runner.pmap(run_case, items)
    laws = []
    for r in recs:
        eq = r.pop('eq', None)
        if eq is not None:
            laws.append({'tid': r['tid'], 'law': 'EQ', 'prop': 'C10', 'A': eq['A'], 'B': eq['B'], 't': [1, 1],
                         'meas': 'JACCARD', 'op': '>='})
    verdicts, stats = runner.validate(recs, 'TraceMatcher', 'e5')
    lverd, lst = runner.validate(laws, 'TraceLaws', 'e5l', batch=400)
    by_tid = dict(items)
    fails, drift = [], []
    for tid, v in lverd.items():
        for f in v['fails']:
            fails.append({'prop': f[0], 'clause': f[1] + ':n_jobs', 'detail': f[2:] + ['n_jobs=%d vs 1' % by_tid[tid]['n_jobs']],
                          'case': by_tid[tid], 'engine': 'E5'})
    for tid, v in verdicts.items():
        for f in v['fails']:
            if f[0] == 'DRIFT':
                drift.append('E5 %s %s (case %s)' % (f[1], f[2:], by_tid[tid].get('_src')))
                continue
            fails.append({'prop': f[0], 'clause': f[1], 'detail': f[2:], 'case': by_tid[tid], 'engine': 'E5'})
    rng = random.Random(seed)
    samples = [{k: c.get(k) for k in ('kind', 'op', 't', 'am', 'simkind', 'filt', 'meas', 'n_jobs', 'C', '_src')}
               for _, c in rng.sample(items, 3)]
    return {'engine': 'E5', 'cases': len(items), 'traces': len(recs) + len(laws),
            'states': res.distinct + stats['states'] + lst['states'],
            'transitions': stats['transitions'] + lst['transitions'], 'fails': fails, 'drift': drift[:50], 'samples': samples, 'exhaustive': True,
            'spec_runs': ['GenCandsets: %d initial states' % res.distinct,
                          'TraceMatcher: %d traces in %d TLC runs' % (len(recs), stats['tlc_runs']),
                          'TraceLaws EQ (n_jobs = k vs 1): %d' % len(laws)],
            'rule': 'every sequence of distinct key pairs over 2x2 keys up to the length bound x every set of '
                    'missing rows (TLC, spec/GenCandsets.tla), each under seeded configurations (6 operators, score '
                    'classes t-d/t/t+d, tokenizer or none, bound-method or plain similarity, five filters, n_jobs 1-4); '
                    'long candidate sets over 4x4 keys for every (length, jobs) combination up to the bounds of the '
                    'configuration (jobs beyond the processor count, key columns as int64/int32/Int64/object, '
                    'self-joins on one DataFrame object)'}


def replay(case):
    rec = run_case((1, case))
    eq = rec.pop('eq', None)
    verdicts, _ = runner.validate([rec], 'TraceMatcher', 'replay-e5')
    fails = [{'prop': f[0], 'clause': f[1], 'detail': f[2:]} for f in verdicts[1]['fails']]
    if eq is not None:
        law = {'tid': 1, 'law': 'EQ', 'prop': 'C10', 'A': eq['A'], 'B': eq['B'], 't': [1, 1], 'meas': 'JACCARD', 'op': '>='}
        v, _ = runner.validate([law], 'TraceLaws', 'replay-e5l')
        fails += [{'prop': f[0], 'clause': f[1] + ':n_jobs', 'detail': f[2:]} for f in v[1]['fails']]
    return fails, rec
