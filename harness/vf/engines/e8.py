"""Engine E8 - converter (C16) and profiler (C17) over TLC-enumerated abstract columns."""
import math
import random
import re

import numpy as np
import pandas as pd

from .. import lib, record, runner, tlc

NUMVAL = {1: 1, 2: 2, 3: 0, 4: 1e16, 5: 1.5, 6: -0.0, 7: -3, 8: 123456.5, 9: 1e19}
STRVAL = {31: 'a', 32: '7'}


def cell_code(v, k, ctype):
    """Code of an observed cell at a position whose input value was k (see spec/Converter.tla)."""
    if v is None or (isinstance(v, (float, np.floating)) and math.isnan(v)):
        return 0
    try:
        if pd.isnull(v):
            return 0
    except (TypeError, ValueError):
        pass
    if isinstance(v, str):
        if ctype in ('object', 'str'):
            return {'a': 31, '7': 32}.get(v, 999)
        if k in NUMVAL:
            num = NUMVAL[k]
            if v == str(int(num)):
                return 100 + k
            if v == str(float(num)):
                return 200 + k
        return 999
    if isinstance(v, (bool, np.bool_)):
        return 999
    if isinstance(v, (int, float, np.integer, np.floating)) and k in NUMVAL:
        same = float(v) == float(NUMVAL[k]) and math.copysign(1, float(v)) == math.copysign(1, float(NUMVAL[k]))
        return 400 + k if same else 999
    return 999


def make_series(ctype, vals, labels):
    if ctype == 'int':
        s = pd.Series([NUMVAL[v] for v in vals], dtype='int64')
    elif ctype == 'float':
        s = pd.Series([np.nan if v == 0 else float(NUMVAL[v]) for v in vals], dtype=float)
    elif ctype == 'object':
        s = pd.Series([None if v == 0 else STRVAL[v] for v in vals], dtype=object)
    else:
        s = pd.Series([None if v == 0 else STRVAL[v] for v in vals], dtype='str')
    s.index = list(labels)
    return s


def cells(series, labcode, vals, ctype):
    out = []
    for l, v in zip(series.index.tolist(), series.tolist()):
        pos = labcode.get(l, 0)
        k = vals[pos - 1] if 1 <= pos <= len(vals) else -1
        out.append([labcode.get(l, 999), cell_code(v, k, ctype)])
    return out


def run_conv(item):
    tid, gen = item
    ssj = lib.load()
    rng = random.Random(tid)
    n = len(gen['vals'])
    mode = ['default', 'shift', 'rev', 'str'][tid % 4]
    labels = {'default': list(range(n)), 'shift': [10 + 2 * j for j in range(n)],
              'rev': list(range(n, 0, -1)), 'str': ['r%d' % j for j in range(n)]}[mode]
    labcode = {l: j + 1 for j, l in enumerate(labels)}
    ser = make_series(gen['ctype'], gen['vals'], labels)
    rec = {'tid': tid, 'entry': gen['entry'], 'ctype': gen['ctype'], 'vals': gen['vals'],
           'inplace': gen['inplace'], 'rc': gen['rc'], 'labels': [labcode[l] for l in labels]}
    raised, ret = '', None
    others, aliased = 1, 0
    if gen['entry'] == 'series':
        try:
            ret = ssj.series_to_str(ser, bool(gen['inplace']))
        except Exception as exc:
            raised = type(exc).__name__
        after = ser
    else:
        df = pd.DataFrame({'k': pd.Series(range(n), dtype='int64').values, 'c': ser.values,
                           'z': pd.Series(['q'] * n, dtype=object).values}, index=list(labels))
        df['c'] = ser
        before_others = df[['k', 'z']].copy(deep=True)
        try:
            ret = ssj.dataframe_column_to_str(df, 'c', bool(gen['inplace']), bool(gen['rc']))
        except Exception as exc:
            raised = type(exc).__name__
        after = df['c']
        try:
            others = int(list(df.columns) == ['k', 'c', 'z'] and df[['k', 'z']].equals(before_others)
                         and df.index.tolist() == list(labels))
            if isinstance(ret, pd.DataFrame):
                aliased = int(ret is df)
                others = int(others and list(ret.columns) == ['k', 'c', 'z'] and ret.index.tolist() == list(labels)
                             and ret[['k', 'z']].equals(before_others))
        except Exception:
            others = 0
    if raised:
        retc = ['raised', []]
    elif ret is True:
        retc = ['true', []]
    elif isinstance(ret, pd.Series):
        retc = ['series', cells(ret, labcode, gen['vals'], gen['ctype'])]
    elif isinstance(ret, pd.DataFrame) and 'c' in ret.columns:
        retc = ['frame', cells(ret['c'], labcode, gen['vals'], gen['ctype'])]
    else:
        retc = ['other', []]
    rec['obs'] = {'raised': raised, 'ret': retc, 'after': cells(after, labcode, gen['vals'], gen['ctype']), 'others': others, 'aliased': aliased}
    return rec


# ------------------------------------------------------------------ profiler
_STAT = re.compile(r'^(\d+) \((\d+(?:\.\d+)?)%\)$')


def parse_stat(text):
    m = _STAT.match(str(text))
    if not m:
        return -1, -1
    pct = float(m.group(2))
    hund = int(round(pct * 100))
    if str(hund / 100.0) != m.group(2) and str(float(hund) / 100) != m.group(2):
        return int(m.group(1)), -1
    return int(m.group(1)), hund


def build_column(kind, col, variant):
    """-> pandas Series realising the abstract column."""
    if kind == 'small':
        seq = list(col)
    else:
        reps, singles, miss = col
        seq, nxt = [], 1
        for r in reps:
            seq += [nxt] * r
            nxt += 1
        seq += list(range(nxt, nxt + singles))
        seq += [0] * miss
        random.Random(singles).shuffle(seq)
    if variant == 'float':
        return pd.Series([np.nan if v == 0 else float(v) for v in seq], dtype=float)
    if variant == 'Int64':
        return pd.Series([pd.NA if v == 0 else v for v in seq], dtype='Int64')
    if variant == 'str':
        return pd.Series([None if v == 0 else 'v%d' % v for v in seq], dtype='str')
    if variant == 'mixedobj':
        return pd.Series([(None if j % 2 else np.nan) if v == 0 else 'v%d' % v for j, v in enumerate(seq)], dtype=object)
    if variant == 'boolean' and set(seq) <= {0, 1, 2}:
        return pd.Series([pd.NA if v == 0 else (v == 1) for v in seq], dtype='boolean')
    if variant == 'int' and 0 not in seq:
        return pd.Series(seq, dtype='int64')
    if variant == 'bigint' and 0 not in seq:
        return pd.Series([2 ** 60 + v for v in seq], dtype='int64')     # 64-bit identifiers beyond 2^53
    if variant == 'bigInt64':
        return pd.Series([pd.NA if v == 0 else 2 ** 60 + v for v in seq], dtype='Int64')
    if variant == 'category':
        cats = sorted({'v%d' % v for v in seq if v != 0}) + ['unused-category']
        return pd.Series(pd.Categorical([None if v == 0 else 'v%d' % v for v in seq], categories=cats))
    return pd.Series([None if v == 0 else 'v%d' % v for v in seq], dtype=object)


VARIANTS = ['object', 'float', 'Int64', 'str', 'mixedobj', 'boolean', 'int', 'category', 'bigint', 'bigInt64']


def run_prof(item):
    tid, gen = item
    ssj = lib.load()
    variant = VARIANTS[tid % len(VARIANTS)]
    col = build_column(gen['kind'], gen['col'], variant)
    n = len(col)
    # a second profiled column (a key column) and an unprofiled one
    df = pd.DataFrame({'c': col, 'k': pd.Series(range(n), dtype='int64'), 'u': pd.Series(['x'] * n, dtype=object)})
    if tid % 3 == 1:
        df = df[['u', 'k', 'c']]
    if tid % 5 in (2, 3) and n:
        # repeated / non-default index labels must not matter
        df.index = [7] * n if tid % 5 == 2 else ['g%d' % (j % 2) for j in range(n)]
    attrs_arg = [None, ['c'], ['k', 'c'], ['c', 'k']][tid % 4]
    attrs = list(df.columns) if attrs_arg is None else attrs_arg
    snap = record.snapshot(df)
    raised, out = '', None
    try:
        out = ssj.profile_table_for_join(df, attrs_arg)
    except Exception as exc:
        raised = type(exc).__name__
    def triple_of(name):
        if name == 'c':
            return gen['col'] if gen['kind'] == 'big' else list(gen['col'])
        if name == 'k':
            return [[], n, 0] if gen['kind'] == 'big' else None
        return [[n], 0, 0] if (gen['kind'] == 'big' and n > 1) else None
    rec = {'tid': tid, 'kind': gen['kind'], 'attrs': attrs, 'cols': [], 'variant': variant}
    # small columns are judged from their values; describe the helper columns likewise
    for a in attrs:
        if gen['kind'] == 'big':
            rec['cols'].append(triple_of(a) if a != 'u' else ([[n], 0, 0] if n > 1 else [[], 1, 0]))
        else:
            if a == 'c':
                rec['cols'].append(list(gen['col']))
            elif a == 'k':
                rec['cols'].append([1, 2, 3][:n] if n <= 3 else None)
            else:
                rec['cols'].append([1] * n)
    if gen['kind'] == 'small' and n > 3:
        # key column of 4+ distinct values cannot be written over the 3-value small domain: describe as big
        rec['kind'] = 'big'
        def small_triple(seq):
            vals = [v for v in seq if v != 0]
            mult = {}
            for v in vals:
                mult[v] = mult.get(v, 0) + 1
            reps = [c for c in mult.values() if c > 1]
            return [sorted(reps), len(mult) - len(reps), len(seq) - len(vals)]
        rec['cols'] = [small_triple(gen['col']) if a == 'c' else ([[], n, 0] if a == 'k' else [[n], 0, 0]) for a in attrs]
    obs = {'raised': raised, 'names': [], 'rows': [], 'header_ok': 0, 'same': record.same_as_snapshot(df, snap)}
    if raised == '' and isinstance(out, pd.DataFrame):
        obs['names'] = [str(x) for x in out.index.tolist()]
        obs['header_ok'] = int(list(out.columns) == ['Unique values', 'Missing values', 'Comments'])
        for _, r in out.iterrows():
            u, up = parse_stat(r.get('Unique values'))
            m, mp = parse_stat(r.get('Missing values'))
            com = str(r.get('Comments'))
            row = {'unique': u, 'upct': up, 'missing': m, 'mpct': mp, 'comment': 9, 'wcount': -1, 'wpct': -1}
            if com == '':
                row['comment'] = 0
            elif com == 'This attribute can be used as a key attribute.':
                row['comment'] = 1
            else:
                mm = re.match(r'^Joining on this attribute will ignore (.*) rows\.$', com)
                if mm:
                    row['comment'] = 2
                    row['wcount'], row['wpct'] = parse_stat(mm.group(1))
            obs['rows'].append(row)
    elif raised == '':
        obs['raised'] = 'NotADataFrame'
    rec['obs'] = obs
    return rec


def run(tier, seed):
    suffix = '_q' if tier == 'quick' else '_t'
    cres = tlc.run('Converter', 'Converter' + suffix, workers=1)
    pres = tlc.run('Profiler', 'Profiler' + suffix, workers=1)
    cg, pg = cres.tag('GEN'), pres.tag('GEN')
    if len(cg) != cres.distinct or len(pg) != pres.distinct or not cg or not pg:
        raise runner.MachineryError('E8: GEN records do not match the initial states')
    citems = [(j + 1, g) for j, g in enumerate(cg)]
    reps = len(VARIANTS)
    pitems = []
    for g in pg:
        for v in range(reps if g['kind'] == 'small' else 4):
            pitems.append((len(pitems) + 1, g))
    runner.log('E8: %d converter cases, %d profiler cases (TLC-enumerated)' % (len(citems), len(pitems)))
    crecs = runner.pmap(run_conv, citems)
    precs = runner.pmap(run_prof, pitems, chunk=8)
    cverd, cst = runner.validate(crecs, 'TraceConverter', 'e8c', batch=600)
    pverd, pst = runner.validate(precs, 'TraceProfiler', 'e8p', batch=300)
    fails = []
    cmap, pmap_ = dict(citems), dict(pitems)
    for tid, v in cverd.items():
        for f in v['fails']:
            g = cmap[tid]
            fails.append({'prop': f[0], 'clause': f[1], 'detail': [g], 'engine': 'E8',
                          'case': {'kind': 'converter', 'api': g['entry'], 'meas': g['ctype'], 'gen': g, 'tid': tid,
                                   'inplace': g['inplace']}})
    for tid, v in pverd.items():
        for f in v['fails']:
            g = pmap_[tid]
            fails.append({'prop': f[0], 'clause': f[1], 'detail': f[2:] + [g], 'engine': 'E8',
                          'case': {'kind': 'profiler', 'api': 'profile_table_for_join', 'meas': VARIANTS[tid % len(VARIANTS)],
                                   'gen': g, 'tid': tid}})
    samples = [crecs[5], precs[3], precs[-1]]
    return {'engine': 'E8', 'cases': len(citems) + len(pitems), 'traces': len(crecs) + len(precs),
            'states': cres.distinct + pres.distinct + cst['states'] + pst['states'],
            'transitions': cst['transitions'] + pst['transitions'], 'fails': fails, 'samples': samples,
            'exhaustive': True,
            'spec_runs': ['Converter: %d cases' % len(cg), 'Profiler: %d abstract columns' % len(pg)],
            'rule': 'converter: every column up to the length bound over the abstract value domain x dtype x entry point '
                    'x inplace x return_col, with four index labelings; profiler: every small column over 3 values + '
                    'missing and run-length families around 20 000-30 000 rows, realised in up to 7 dtypes (object, '
                    'float, nullable Int64, string, mixed None/NaN, nullable boolean, int) and 4 profile_attrs choices'}


def replay(case):
    if case['kind'] == 'converter':
        rec = run_conv((case['tid'], case['gen']))
        v, _ = runner.validate([rec], 'TraceConverter', 'replay-e8c')
    else:
        rec = run_prof((case['tid'], case['gen']))
        v, _ = runner.validate([rec], 'TraceProfiler', 'replay-e8p')
    return [{'prop': f[0], 'clause': f[1], 'detail': f[2:]} for f in v[rec['tid']]['fails']], rec
