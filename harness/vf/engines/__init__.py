"""Engine registry and result cache.

An engine run is shared by all properties it serves: results are cached under
.work/cache keyed by the SHA-256 of the library sources, the specifications,
the harness and known_findings.json, plus tier and seed.  Every registered
check therefore rebuilds from /repo's current working tree; it just does not
rebuild the same thing seventeen times.  VERIF_NO_CACHE=1 disables the cache.
"""
import importlib
import json
import os
import time

from .. import config, lib, runner

ENGINES = {
    'E1': 'vf.engines.e1',
    'EM': 'vf.engines.em',
    'E2': 'vf.engines.e2',
    'E3': 'vf.engines.e3',
    'E4': 'vf.engines.e4',
    'E5': 'vf.engines.e5',
    'E6': 'vf.engines.e6',
    'E7': 'vf.engines.e7',
    'E8': 'vf.engines.e8',
    'E9': 'vf.engines.e9',
}


# engines that only model-check the specification do not depend on the library sources
REPO_INDEPENDENT = {'EM'}


def run_engine(name, tier, seed):
    h = lib.tree_hash(with_repo=(name not in REPO_INDEPENDENT))
    cache_dir = config.workdir('cache')
    path = os.path.join(cache_dir, '%s-%s-%s-%s.json' % (name, tier, seed, h[:24]))
    if os.environ.get('VERIF_NO_CACHE') != '1' and os.path.exists(path):
        with open(path) as handle:
            res = json.load(handle)
        res['cached'] = True
        runner.log('%s: cached result for this tree (%s)' % (name, h[:12]))
        return res
    mod = importlib.import_module(ENGINES[name])
    t0 = time.time()
    res = mod.run(tier, seed)
    res['wall'] = time.time() - t0
    res['tree'] = h
    res['cached'] = False
    # keep the cache small: at most three results per engine and tier (newest first)
    olds = sorted((f for f in os.listdir(cache_dir) if f.startswith('%s-%s-' % (name, tier))),
                  key=lambda f: os.path.getmtime(os.path.join(cache_dir, f)), reverse=True)
    for old in olds[2:]:
        try:
            os.remove(os.path.join(cache_dir, old))
        except OSError:
            pass
    with open(path, 'w') as handle:
        json.dump(res, handle)
    return res


def replay_engine(name, case):
    mod = importlib.import_module(ENGINES[name])
    return mod.replay(case)
