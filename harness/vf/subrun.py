"""Executes cases in a separate interpreter (other hash seed, process-pool backend):
python -m vf.subrun <cases.json> <out.json>"""
import json
import sys


def main(src, dst):
    from . import record
    cases = json.load(open(src))
    out = []
    for case in cases:
        case['backend'] = case.get('backend', 'loky')
        obs, result, events, tables = record.execute(case)
        out.append({'raised': obs['raised'], 'rows': record.law_rows(case, result, tables)})
    json.dump(out, open(dst, 'w'))


if __name__ == '__main__':
    main(sys.argv[1], sys.argv[2])
