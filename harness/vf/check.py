"""`vf check <property> --tier quick|thorough` and `vf replay <file>`."""
import hashlib
import json
import os
import sys
import time

from . import config, findings, runner, tlc
from .engines import run_engine, replay_engine
from .props import PROPS


def _replay_path(prop, fail):
    blob = json.dumps({'c': fail.get('case'), 'k': fail['clause'], 'd': fail.get('detail')},
                      sort_keys=True, default=str)
    name = '%s-%s-%s.json' % (prop, fail['clause'], hashlib.sha1(blob.encode()).hexdigest()[:10])
    os.makedirs(config.REPLAY, exist_ok=True)
    path = os.path.join(config.REPLAY, name)
    with open(path, 'w') as handle:
        json.dump({'property': prop, 'engine': fail.get('engine'), 'clause': fail['clause'],
                   'detail': fail.get('detail'), 'case': fail.get('case')}, handle, indent=1,
                  default=str)
    return path


COST_ORDER = ['E7', 'E8', 'E5', 'E6', 'E3', 'E4', 'E9', 'E1', 'E2', 'EM']


def check(prop, tier, seed, first_hit=False):
    t0 = time.time()
    spec = PROPS[prop]
    results = []
    engines = spec['engines'][tier]
    if first_hit:      # used when sweeping seeded mutations: cheapest engine first, stop at the first detection
        engines = sorted(engines, key=COST_ORDER.index)
    for eng in engines:
        results.append(run_engine(eng, tier, seed))
        if first_hit:
            hits = [f for f in results[-1]['fails'] if f['prop'] == prop]
            if findings.classify(hits)[0]:
                break
    fails = [f for r in results for f in r['fails'] if f['prop'] == prop]
    new, known, entries = findings.classify(fails)
    for kid, fs in sorted(known.items()):
        print('KNOWN-FINDING: property=%s %s [%s] (%d occurrences this run)' % (
            prop, entries[kid]['what'], kid, len(fs)))
    seen = set()
    shown = 0
    for f in new:
        key = (f['clause'], json.dumps(f.get('case', {}).get('api', '')),
               json.dumps(f.get('case', {}).get('meas', '')))
        if (key in seen and shown >= 20) or shown >= 60:
            continue
        path = _replay_path(prop, f)
        seen.add(key)
        shown += 1
        print('VIOLATION property=%s replay=%s' % (prop, path))
        print('   engine=%s clause=%s detail=%s' % (f.get('engine'), f['clause'], f.get('detail')))
    drift = [d for r in results for d in r.get('drift', [])]
    for d in drift[:10]:
        print('DRIFT %s' % (d,))
    write_evidence(prop, tier, seed, spec, results, new, known, drift, time.time() - t0)
    print('%s %s: %d engine(s), %d cases, %d traces validated, %d new violation(s), %d known, %d drift, %.1fs' % (
        prop, tier, len(results), sum(r['cases'] for r in results),
        sum(r['traces'] for r in results), len(new), sum(len(v) for v in known.values()),
        len(drift), time.time() - t0))
    return 1 if new else 0


def write_evidence(prop, tier, seed, spec, results, new, known, drift, wall):
    os.makedirs(config.EVIDENCE, exist_ok=True)
    samples = []
    for r in results:
        for s in r.get('samples', [])[:2]:
            samples.append({'engine': r['engine'], 'case': s})
    cov = {
        'states': max(1, sum(r.get('states', 0) for r in results)),
        'transitions': max(1, sum(r.get('transitions', 0) for r in results)),
        'traces_validated_against_impl': sum(r['traces'] for r in results),
        'samples': samples or [{'note': 'no cases'}],
        'evaluations': sum(r['cases'] for r in results),
        'exhaustive': all(r.get('exhaustive', False) for r in results),
        'engines': [{'engine': r['engine'], 'cases': r['cases'], 'traces': r['traces'],
                     'states': r.get('states', 0), 'wall_s': round(r.get('wall', 0.0), 1),
                     'cached_for_this_tree': bool(r.get('cached')), 'rule': r.get('rule', ''),
                     'spec_runs': r.get('spec_runs', []),
                     'model_checks': r.get('model_checks', []),
                     'fails_for_property': len([f for f in r['fails'] if f['prop'] == prop])}
                    for r in results],
        'drift': len(drift),
        'known_findings': {k: len(v) for k, v in known.items()},
        'checker_cmd': 'java -cp tla2tools.jar:CommunityModules-deps.jar tlc2.TLC (see harness/vf/tlc.py)',
    }
    ev = {'property_id': prop, 'tier': tier, 'seed': seed, 'level': 'model_checking',
          'coverage': cov, 'assumptions': spec.get('assumptions', []),
          'wall_s': round(wall, 2), 'violations': len(new)}
    with open(os.path.join(config.EVIDENCE, prop + '.json'), 'w') as handle:
        json.dump(ev, handle, indent=1, default=str)


def replay(path):
    with open(path) as handle:
        rp = json.load(handle)
    fails, rec = replay_engine(rp['engine'], rp['case'])
    mine = [f for f in fails if f['prop'] == rp['property']]
    print(json.dumps({'property': rp['property'], 'clause': rp['clause'],
                      'fails_now': fails}, indent=1, default=str))
    if mine:
        print('VIOLATION property=%s replay=%s' % (rp['property'], path))
        return 1
    print('replay: property %s holds on this case now' % rp['property'])
    return 0


def main(argv):
    import argparse
    ap = argparse.ArgumentParser(prog='vf')
    sub = ap.add_subparsers(dest='cmd')
    c = sub.add_parser('check')
    c.add_argument('prop')
    c.add_argument('--tier', default=None)
    c.add_argument('--first-hit', action='store_true')
    r = sub.add_parser('replay')
    r.add_argument('path')
    sub.add_parser('selftest')
    e = sub.add_parser('engine')
    e.add_argument('name')
    e.add_argument('--tier', default=None)
    args = ap.parse_args(argv)
    try:
        if args.cmd == 'check':
            tier = args.tier or config.tier()
            return check(args.prop, tier, config.seed(), first_hit=args.first_hit)
        if args.cmd == 'replay':
            return replay(args.path)
        if args.cmd == 'selftest':
            from . import selftest
            return selftest.main()
        if args.cmd == 'engine':
            res = run_engine(args.name, args.tier or config.tier(), config.seed())
            print(json.dumps({k: v for k, v in res.items() if k not in ('fails', 'samples')}, indent=1))
            import collections
            cnt = collections.Counter((f['prop'], f['clause'], f['case'].get('api'), f['case'].get('meas'))
                                      for f in res['fails'])
            for k, n in sorted(cnt.items()):
                print(n, k)
            return 0
    except (runner.MachineryError, tlc.TLCError) as exc:
        sys.stderr.write('MACHINERY FAILURE: %s\n' % exc)
        return 2
    ap.print_help()
    return 2
