"""`./vf selftest` - demonstrates that the specification is bound to the code:

(a) a recorded API trace with one corrupted field (a score, a dropped row, a wrong cell) is rejected by
    TraceAPI with the expected clause;
(b) a recorded worker trace with one hook event removed / one logged value changed is rejected by
    TraceWorkers (drift) with the expected clause;
(c) the unmodified traces are accepted.
Not a registered check; exit 0 iff every expectation holds.
"""
import copy
import os

from . import config, record, runner, workertrace


def main():
    case = {'kind': 'join', 'api': 'jaccard_join', 'meas': 'JACCARD', 'filt': 'NONE', 'op': '>=', 't': [1, 2],
            'ae': 1, 'am': 1, 'sc': 1, 'lout': ['a'], 'rout': None, 'n_jobs': 1, 'tok': {'kind': 'ws', 'rs': 1},
            'L': {'cols': ['id', 's', 'a'], 'rows': [[1, 'x y z', 7], [2, 'x y', 8], [3, None, 9], [4, '', 5]],
                  'index': None, 'strcols': ['s']},
            'R': {'cols': ['id', 's'], 'rows': [[11, 'x y'], [12, ''], [13, 'z w']], 'index': None, 'strcols': ['s']}}
    obs, res, events, tabs = record.execute(case)
    good = record.abstract(case, obs, res, tabs, 1)
    variants = [('unmodified', good, set())]
    v = copy.deepcopy(good); v['tid'] = 2
    for r in v['obs']['rows']:
        if r['s'][0] == 2 and r['s'][1] == 6667:
            r['s'][1] = 6666
    variants.append(('score corrupted 0.6667 -> 0.6666', v, {('C02', 'score')}))
    v = copy.deepcopy(good); v['tid'] = 3
    v['obs']['rows'] = [r for r in v['obs']['rows'] if not (r['l'] == 2 and r['r'] == 11)]
    v['obs']['ids'] = v['obs']['ids'][:-1]
    variants.append(('qualifying row (2, 11) removed', v, {('C01', 'missed')}))
    v = copy.deepcopy(good); v['tid'] = 4
    v['obs']['rows'][0]['la'] = [999999]
    variants.append(('projected cell corrupted', v, {('C11', 'cells')}))
    v = copy.deepcopy(good); v['tid'] = 5
    v['obs']['rows'] = [r for r in v['obs']['rows'] if r['l'] != 3 or r['r'] != 12]
    v['obs']['ids'] = v['obs']['ids'][:-1]
    variants.append(('missing-value pair (3, 12) removed', v, {('C08', 'missing-pair-absent')}))
    v = copy.deepcopy(good); v['tid'] = 6
    v['obs']['fa'] = 1 - v['obs']['fb']
    variants.append(('tokenizer flag not restored', v, {('C12', 'flag')}))
    verdicts, _ = runner.validate([x[1] for x in variants], 'TraceAPI', 'selftest-api')
    ok = True
    for name, rec, expect in variants:
        got = {(f[0], f[1]) for f in verdicts[rec['tid']]['fails']}
        good_here = got == expect if not expect else expect <= got
        print('%-45s -> %s %s' % (name, sorted(got) or 'accepted', 'OK' if good_here else 'UNEXPECTED'))
        ok = ok and good_here
    # (b) worker traces
    key, w = workertrace.build(case, events, tabs, 1)
    wv = [('unmodified worker trace', w, set())]
    x = copy.deepcopy(w); x['tid'] = 2
    x['probes'][0]['cand'] = []
    wv.append(('candidate structure of the first probe removed', x, {'candidate-overlap'}))
    x = copy.deepcopy(w); x['tid'] = 3
    x['plens'][0] = max(0, x['plens'][0] - 1)
    wv.append(('logged prefix length of row 0 decreased', x, {'prefix-length-of-indexed-row'}))
    x = copy.deepcopy(w); x['tid'] = 4
    x['rows'] = x['rows'][1:]
    wv.append(('first emitted row dropped from worker_end', x, {'emitted-rows'}))
    x = copy.deepcopy(w); x['tid'] = 5
    x['ord'] = [[t, len(x['ord']) + 1 - r] for t, r in x['ord']]
    wv.append(('token ordering reversed', x, {'order'}))
    cfg_path = os.path.join(config.workdir('traces'), 'selftest-w.cfg')
    with open(cfg_path, 'w') as fh:
        fh.write(workertrace.CFG % (key[0], 'TRUE' if key[2] else 'FALSE', key[1]))
    verdicts, _ = runner.validate([y[1] for y in wv], 'TraceWorkers', 'selftest-w', cfg_path=cfg_path)
    for name, rec, expect in wv:
        got = set(verdicts[rec['tid']]['fails'])
        good_here = (got == set()) if not expect else expect <= got
        print('%-45s -> %s %s' % (name, sorted(got) or 'accepted', 'OK' if good_here else 'UNEXPECTED'))
        ok = ok and good_here
    # (b') the suffix-filter worker
    scase = dict(case, kind='ftab', api='SUFFIX.filter_tables', filt='SUFFIX', sc=0, am=0, lout=None)
    scase['L'] = {'cols': ['id', 's'], 'rows': [[1, 'x y z w'], [2, 'x y'], [4, '']], 'index': None, 'strcols': ['s']}
    scase['R'] = {'cols': ['id', 's'], 'rows': [[11, 'x y z'], [12, ''], [13, 'z w v u']], 'index': None, 'strcols': ['s']}
    obs, res, events, tabs = record.execute(scase)
    key, w = workertrace.build_suffix(scase, events, tabs, 1)
    sv = [('unmodified suffix-worker trace', w, set())]
    x = copy.deepcopy(w); x['tid'] = 2
    x['events'] = x['events'][1:]
    sv.append(('first filter_suffix event removed', x, {'token-counts', 'unconsumed-events', 'missing-event'}))
    x = copy.deepcopy(w); x['tid'] = 3
    x['events'][0]['dropped'] = 1 - x['events'][0]['dropped']
    sv.append(('decision of the first pair inverted', x, {'suffix-decision'}))
    x = copy.deepcopy(w); x['tid'] = 4
    x['events'][0]['ot'] += 1
    sv.append(('logged required overlap increased', x, {'required-overlap'}))
    x = copy.deepcopy(w); x['tid'] = 5
    x['rows'] = x['rows'][:-1]
    sv.append(('last emitted row dropped from worker_end', x, {'emitted-rows'}))
    cfg_path = os.path.join(config.workdir('traces'), 'selftest-s.cfg')
    with open(cfg_path, 'w') as fh:
        fh.write(workertrace.CFG_SUF % (key[1], 'TRUE' if key[2] else 'FALSE'))
    verdicts, _ = runner.validate([y[1] for y in sv], 'TraceWorkersSuffix', 'selftest-s', cfg_path=cfg_path)
    for name, rec, expect in sv:
        got = set(verdicts[rec['tid']]['fails'])
        good_here = (got == set()) if not expect else bool(expect & got)
        print('%-45s -> %s %s' % (name, sorted(got) or 'accepted', 'OK' if good_here else 'UNEXPECTED'))
        ok = ok and good_here
    print('selftest %s' % ('passed' if ok else 'FAILED'))
    return 0 if ok else 1
