"""Hook events of one worker run -> trace record for spec/TraceWorkers.tla."""
from . import record

MODE_OF = {'set_sim_join': 'join', 'position_filter': 'position', 'prefix_filter': 'prefix',
           'size_filter': 'size'}
BIG = 1000000


def eff_t(case):
    """The threshold the Size/Prefix/Position/Suffix filter objects work with: for OVERLAP the ceiling."""
    p, q = case['t']
    if case['meas'] == 'OVERLAP' and q != 1:
        return [-(-p // q), 1]
    return [p, q]


def eligible(case):
    if case['t'][1] > (100 if case['meas'] == 'COSINE' else 1000):
        return False                  # the transcribed arithmetic of Filters.tla uses 32-bit products
    if case.get('n_jobs', 1) != 1 and case.get('backend', 'threading') != 'threading':
        return False
    if case['kind'] == 'join':
        return case['meas'] in ('JACCARD', 'COSINE', 'DICE') and case.get('sc', 1) == 1
    return case['filt'] in ('POSITION', 'PREFIX', 'SIZE') and case['meas'] in ('JACCARD', 'COSINE', 'DICE', 'OVERLAP')


def build_all(case, events, tables, tid):
    """One record per worker run.  With several jobs (threading backend) the events of each worker carry
    its thread id; the chunk a worker processed is recovered from the split_table event."""
    starts = [e for e in events if e['ev'] == 'worker_start']
    if len(starts) <= 1:
        one = build(case, events, tables, tid)
        return [one] if one else []
    splits = [e for e in events if e['ev'] == 'split']
    if len(splits) != 1:
        return []
    sizes = splits[0]['sizes']
    bounds, acc = [], 0
    for sz in sizes:
        bounds.append((acc, acc + sz))
        acc += sz
    by_thread = {}
    for e in events:
        if e['ev'] != 'split':
            by_thread.setdefault(e['tid'], []).append(e)
    rkey = case.get('rkey', 'id')
    rattr = case.get('rattr', 's')
    r_present = [k for k, v in zip(tables[1][rkey].tolist(), tables[1][rattr].tolist()) if not record.is_missing(v)]
    if acc != len(r_present):
        return []
    out, used = [], set()
    # a thread may run several chunks one after the other: cut its events at every worker_start
    runs = []
    for evs in by_thread.values():
        cur = []
        for e in evs:
            if e['ev'] == 'index_built' and cur and any(x['ev'] == 'worker_end' for x in cur):
                runs.append(cur)
                cur = []
            cur.append(e)
        if cur:
            runs.append(cur)
    for evs in runs:
        st = [e for e in evs if e['ev'] == 'worker_start']
        if not st:
            continue                      # events of the calling thread (missing_pairs, ...)
        if len(st) != 1:
            return []
        keys = {record.key_code(e['r_key']) for e in evs if e['ev'] in ('probe', 'probe_empty')}
        pick = None
        for ci, (a, b) in enumerate(bounds):
            if ci in used or b - a != st[0]['n_r']:
                continue
            if keys <= {record.key_code(k) for k in r_present[a:b]}:
                pick = ci
                break
        if pick is None:
            return []
        used.add(pick)
        one = build(case, evs, tables, tid * 100 + pick, r_range=bounds[pick])
        if one is None:
            return []
        out.append(one)
    return out


def build(case, events, tables, tid, r_range=None):
    """-> (group key, record) or None when the events do not describe exactly one worker run."""
    ltable, rtable = tables
    starts = [e for e in events if e['ev'] == 'worker_start']
    ends = [e for e in events if e['ev'] == 'worker_end']
    if len(starts) != 1 or len(ends) != 1 or starts[0]['fn'] not in MODE_OF:
        return None
    fn = starts[0]['fn']
    mode = MODE_OF[fn]
    toks = record.abstract_tables(case, ltable, rtable)
    lkey, rkey = case.get('lkey', 'id'), case.get('rkey', 'id')
    lkeys = ltable[lkey].tolist()
    rkeys = rtable[rkey].tolist()
    L = [toks[('L', i)] for i in range(len(lkeys)) if toks[('L', i)] is not None]
    R = [toks[('R', i)] for i in range(len(rkeys)) if toks[('R', i)] is not None]
    r_present = [rkeys[i] for i in range(len(rkeys)) if toks[('R', i)] is not None]
    l_present = [lkeys[i] for i in range(len(lkeys)) if toks[('L', i)] is not None]
    if r_range is not None:
        R, r_present = R[r_range[0]:r_range[1]], r_present[r_range[0]:r_range[1]]
    if [record.key_code(k) for k in starts[0]['l_keys']] != [record.key_code(k) for k in l_present]:
        return None
    # token string -> id (same abstraction as the API-level record)
    oracle = record.make_tokenizer(case['tok'], return_set=True)
    vocab = sorted({t for tab, attr in ((ltable, case.get('lattr', 's')), (rtable, case.get('rattr', 's')))
                    for v in tab[attr].tolist() if not record.is_missing(v) for t in oracle.tokenize(v)})
    ids = {t: i + 1 for i, t in enumerate(vocab)}
    rec = {'tid': tid, 't': eff_t(case), 'op': case['op'], 'L': L, 'R': R,
           'ord': [], 'sizes': [], 'plens': [], 'index': [], 'empties': [], 'minlen': BIG, 'maxlen': 0,
           'probes': [], 'rows': []}
    if 'ordering' in starts[0]:
        rec['ord'] = [[ids.get(t, 0), r] for t, r in starts[0]['ordering']]
    built = [e for e in events if e['ev'] == 'index_built']
    if len(built) != 1:
        return None
    b = built[0]
    rec['empties'] = list(b.get('empties', []))
    if mode == 'size':
        rec['minlen'], rec['maxlen'] = min(b['min_length'], BIG), b['max_length']
    else:
        rec['sizes'] = list(b['sizes'])
        rec['plens'] = [int(x) for x in b['prefix_lengths']]
        rec['index'] = [[k, [[p[0], p[1]] if isinstance(p, list) else [p, 0] for p in posts]]
                        for k, posts in b['index']]
        rec['minlen'] = min(b.get('min_length', BIG), BIG)
        rec['maxlen'] = b.get('max_length', 0)
    # per right row
    by_key = {}
    cur_fc, cur_sb = None, None
    for e in events:
        if e['ev'] == 'find_candidates':
            cur_fc = e
        elif e['ev'] == 'size_bounds':
            cur_sb = e
        elif e['ev'] in ('probe', 'probe_empty'):
            by_key[record.key_code(e['r_key'])] = (e, cur_fc, cur_sb)
            cur_fc, cur_sb = None, None
    for k in r_present:
        got = by_key.get(record.key_code(k))
        p = {'skipped': 0, 'nofc': 0, 'rtoks': [], 'rp': 0, 'lb': 0, 'ub': BIG, 'ot': [], 'cand': []}
        if got is None or got[0]['ev'] == 'probe_empty':
            p['skipped'] = 1
        else:
            e, fc, sb = got
            p['rtoks'] = list(e.get('r_tokens', []))
            cand = e.get('cand', [])
            if mode in ('join', 'position'):
                p['cand'] = [[c[0], c[1]] for c in cand]
            else:
                p['cand'] = [[c, 1] for c in cand]
            if fc is None and sb is None:
                p['nofc'] = 1
            if fc is not None:
                p['rp'] = int(fc.get('prefix_length', 0))
                if 'lb' in fc:
                    p['lb'], p['ub'] = int(fc['lb']), min(int(fc['ub']), BIG)
                p['ot'] = [[int(s), int(v)] for s, v in fc.get('ot', [])]
            if mode == 'size':
                if sb is not None:
                    p['lb'], p['ub'] = int(sb['lb']), min(int(sb['ub']), BIG)
                    p['nofc'] = 0
                else:
                    p['nofc'] = 1
        rec['probes'].append(p)
    lpos = {record.key_code(k): i for i, k in enumerate(l_present)}
    rpos = {record.key_code(k): i for i, k in enumerate(r_present)}
    for row in ends[0]['rows']:
        l, r = lpos.get(record.key_code(row[0]), -1), rpos.get(record.key_code(row[1]), -1)
        s = -1
        if mode == 'join':
            try:
                s = int(round(float(row[-1]) * 10000))
            except (TypeError, ValueError):
                s = -2
        rec['rows'].append([l, r, s])
    ae = bool(case.get('ae', 1))
    return (case['meas'], mode, ae), rec


CFG = '''SPECIFICATION TSpec
CONSTANTS
  NTok = 1
  MaxL = 0
  MaxR = 0
  Meas = "%s"
  AllowEmpty = %s
  Mode = "%s"
  Sabotage = "none"
INVARIANT Report
CHECK_DEADLOCK FALSE
'''


# ------------------------------------------------------------------ edit distance
def eligible_ed(case):
    return (case['kind'] == 'join' and case['meas'] == 'EDIT_DISTANCE' and case.get('n_jobs', 1) == 1
            and case.get('sc', 1) == 1 and case['tok']['kind'] == 'qg')


def build_ed(case, events, tables, tid):
    """Hook events of one _edit_distance_join_split run -> record for spec/TraceWorkersED.tla."""
    ltable, rtable = tables
    starts = [e for e in events if e['ev'] == 'worker_start' and e.get('fn') == 'edit_distance_join']
    ends = [e for e in events if e['ev'] == 'worker_end' and e.get('fn') == 'edit_distance_join']
    built = [e for e in events if e['ev'] == 'index_built' and e.get('kind') == 'prefix']
    if len(starts) != 1 or len(ends) != 1 or len(built) != 1:
        return None
    lkey, rkey = case.get('lkey', 'id'), case.get('rkey', 'id')
    lattr, rattr = case.get('lattr', 's'), case.get('rattr', 's')
    lvals = [(k, v) for k, v in zip(ltable[lkey].tolist(), ltable[lattr].tolist()) if not record.is_missing(v)]
    rvals = [(k, v) for k, v in zip(rtable[rkey].tolist(), rtable[rattr].tolist()) if not record.is_missing(v)]
    alphabet = sorted({ch for _, v in lvals + rvals for ch in v})
    if any(ch in '#$' for ch in alphabet):
        return None
    code = {ch: i + 1 for i, ch in enumerate(alphabet)}
    code['#'], code['$'] = -2, -1
    q = 2 if case.get('default_tok') else int(case['tok'].get('q', 2))
    pad = True if case.get('default_tok') else bool(case['tok'].get('pad', 1))
    tau = case['t'][0] // case['t'][1]
    rec = {'tid': tid, 'tau': tau, 'op': case['op'],
           'L': [[code[ch] for ch in v] for _, v in lvals], 'R': [[code[ch] for ch in v] for _, v in rvals],
           'ord': [[[code[ch] for ch in g], r] for g, r in starts[0]['ordering']],
           'sizes': list(built[0]['sizes']), 'plens': [int(x) for x in built[0]['prefix_lengths']],
           'index': [[k, list(rows)] for k, rows in built[0]['index']], 'llens': list(starts[0]['l_lens']),
           'probes': [], 'rows': []}
    if [record.key_code(k) for k in starts[0]['l_keys']] != [record.key_code(k) for k, _ in lvals]:
        return None
    by_key, cur_fc = {}, None
    for e in events:
        if e['ev'] == 'find_candidates' and e.get('kind') == 'prefix':
            cur_fc = e
        elif e['ev'] == 'probe' and e.get('fn') == 'edit_distance_join':
            by_key[record.key_code(e['r_key'])] = (e, cur_fc)
            cur_fc = None
    for k, v in rvals:
        got = by_key.get(record.key_code(k))
        if got is None:
            return None
        e, fc = got
        rec['probes'].append({'rtoks': list(e['r_tokens']), 'rlen': int(e['r_len']), 'cand': list(e['cand']),
                              'nofc': 0 if fc is not None else 1,
                              'rp': int(fc['prefix_length']) if fc is not None else 0})
    lpos = {record.key_code(k): i for i, (k, _) in enumerate(lvals)}
    rpos = {record.key_code(k): i for i, (k, _) in enumerate(rvals)}
    for row in ends[0]['rows']:
        try:
            d = int(round(float(row[-1])))
        except (TypeError, ValueError):
            d = -1
        rec['rows'].append([lpos.get(record.key_code(row[0]), -1), rpos.get(record.key_code(row[1]), -1), d])
    return (q, pad), rec


CFG_ED = '''SPECIFICATION TSpec
CONSTANTS
  NChar = 1
  MaxLen = 0
  MaxL = 0
  MaxR = 0
  QVal = %d
  Padding = %s
  MaxTau = 0
  Sabotage = "none"
INVARIANT Report
CHECK_DEADLOCK FALSE
'''


# ------------------------------------------------------- inverted-index workers
def eligible_oc(case):
    if case.get('n_jobs', 1) != 1:
        return False
    if case['kind'] == 'join':
        return case['meas'] in ('OVERLAP_COEFFICIENT', 'OVERLAP')
    return case.get('filt') == 'OVERLAP'


def build_oc(case, events, tables, tid):
    ltable, rtable = tables
    fn = 'overlap_coefficient_join' if case['meas'] == 'OVERLAP_COEFFICIENT' else 'overlap_filter'
    starts = [e for e in events if e['ev'] == 'worker_start' and e.get('fn') == fn]
    ends = [e for e in events if e['ev'] == 'worker_end' and e.get('fn') == fn]
    built = [e for e in events if e['ev'] == 'index_built' and e.get('kind') == 'inverted']
    if len(starts) != 1 or len(ends) != 1 or len(built) != 1:
        return None
    toks = record.abstract_tables(case, ltable, rtable)
    lkey, rkey = case.get('lkey', 'id'), case.get('rkey', 'id')
    lkeys, rkeys = ltable[lkey].tolist(), rtable[rkey].tolist()
    L = [toks[('L', i)] for i in range(len(lkeys)) if toks[('L', i)] is not None]
    R = [toks[('R', i)] for i in range(len(rkeys)) if toks[('R', i)] is not None]
    l_present = [lkeys[i] for i in range(len(lkeys)) if toks[('L', i)] is not None]
    r_present = [rkeys[i] for i in range(len(rkeys)) if toks[('R', i)] is not None]
    if [record.key_code(k) for k in starts[0]['l_keys']] != [record.key_code(k) for k in l_present]:
        return None
    oracle = record.make_tokenizer(case['tok'], return_set=True)
    vocab = sorted({t for tab, attr in ((ltable, case.get('lattr', 's')), (rtable, case.get('rattr', 's')))
                    for v in tab[attr].tolist() if not record.is_missing(v) for t in oracle.tokenize(v)})
    ids = {t: i + 1 for i, t in enumerate(vocab)}
    mode = 'oc' if fn == 'overlap_coefficient_join' else 'overlap'
    rec = {'tid': tid, 't': list(case['t']), 'op': case['op'], 'L': L, 'R': R,
           'index': [[ids.get(t, 0), list(rows)] for t, rows in built[0]['index']],
           'sizes': list(built[0].get('sizes') or []), 'empties': list(built[0].get('empties') or []),
           'probes': [], 'rows': []}
    by_key = {}
    for e in events:
        if e['ev'] == 'probe' and e.get('fn') == fn:
            by_key[record.key_code(e['r_key'])] = e
    for k in r_present:
        e = by_key.get(record.key_code(k))
        if e is None:
            rec['probes'].append({'skipped': 1, 'rtoks': [], 'cand': []})
        else:
            rec['probes'].append({'skipped': 0, 'rtoks': sorted({ids.get(t, 0) for t in e['r_tokens']}),
                                  'cand': [[c[0], c[1]] for c in e['cand']]})
    lpos = {record.key_code(k): i for i, k in enumerate(l_present)}
    rpos = {record.key_code(k): i for i, k in enumerate(r_present)}
    for row in ends[0]['rows']:
        rec['rows'].append([lpos.get(record.key_code(row[0]), -1), rpos.get(record.key_code(row[1]), -1)])
    ae = bool(case.get('ae', 1)) if mode == 'oc' else True
    return ('OC', mode, ae), rec


CFG_OC = '''SPECIFICATION TSpec
CONSTANTS
  NTok = 1
  MaxL = 0
  MaxR = 0
  Mode = "%s"
  AllowEmpty = %s
  Sabotage = "none"
INVARIANT Report
CHECK_DEADLOCK FALSE
'''


# ------------------------------------------------------- suffix-filter worker
def eligible_suffix(case):
    return (case['kind'] == 'ftab' and case.get('filt') == 'SUFFIX' and case.get('n_jobs', 1) == 1
            and case['meas'] in ('JACCARD', 'COSINE', 'DICE', 'OVERLAP')
            and case['t'][1] <= (100 if case['meas'] == 'COSINE' else 1000) and case['tok'].get('rs', 1) == 1)


def build_suffix(case, events, tables, tid):
    """Hook events of one SuffixFilter._filter_tables_split run -> record for spec/TraceWorkersSuffix.tla."""
    ltable, rtable = tables
    starts = [e for e in events if e['ev'] == 'worker_start' and e.get('fn') == 'suffix_filter']
    ends = [e for e in events if e['ev'] == 'worker_end' and e.get('fn') == 'suffix_filter']
    if len(starts) != 1 or len(ends) != 1:
        return None
    toks = record.abstract_tables(case, ltable, rtable)
    lkey, rkey = case.get('lkey', 'id'), case.get('rkey', 'id')
    lkeys, rkeys = ltable[lkey].tolist(), rtable[rkey].tolist()
    L = [toks[('L', i)] for i in range(len(lkeys)) if toks[('L', i)] is not None]
    R = [toks[('R', i)] for i in range(len(rkeys)) if toks[('R', i)] is not None]
    l_present = [lkeys[i] for i in range(len(lkeys)) if toks[('L', i)] is not None]
    r_present = [rkeys[i] for i in range(len(rkeys)) if toks[('R', i)] is not None]
    if [record.key_code(k) for k in starts[0]['l_keys']] != [record.key_code(k) for k in l_present]:
        return None
    oracle = record.make_tokenizer(case['tok'], return_set=True)
    vocab = sorted({t for tab, attr in ((ltable, case.get('lattr', 's')), (rtable, case.get('rattr', 's')))
                    for v in tab[attr].tolist() if not record.is_missing(v) for t in oracle.tokenize(v)})
    ids = {t: i + 1 for i, t in enumerate(vocab)}
    rec = {'tid': tid, 't': eff_t(case), 'L': L, 'R': R,
           'ord': [[ids.get(t, 0), r] for t, r in starts[0].get('ordering', [])], 'events': [], 'rows': []}
    for e in events:
        if e['ev'] == 'filter_suffix':
            rec['events'].append({'lp': int(e['l_prefix']), 'rp': int(e['r_prefix']), 'ln': int(e['l_n']),
                                  'rn': int(e['r_n']), 'ot': int(e['ot']), 'dropped': int(bool(e['dropped']))})
    lpos = {record.key_code(k): i for i, k in enumerate(l_present)}
    rpos = {record.key_code(k): i for i, k in enumerate(r_present)}
    for row in ends[0]['rows']:
        rec['rows'].append([lpos.get(record.key_code(row[0]), -1), rpos.get(record.key_code(row[1]), -1)])
    return ('SUF', case['meas'], bool(case.get('ae', 1))), rec


CFG_SUF = '''SPECIFICATION TSpec
CONSTANTS
  NTok = 1
  MaxL = 0
  MaxR = 0
  Meas = "%s"
  AllowEmpty = %s
  Sabotage = "none"
INVARIANT Report
CHECK_DEADLOCK FALSE
'''
