"""Which engines decide which property (DESIGN.md section 4)."""

_COMMON = [
    'TLC (tla2tools 1.8.0) evaluates the specification correctly',
    'py_stringmatching tokenizers and pandas are the trusted environment used to abstract observed values',
    'thresholds are quotients p/q of small integers; the float passed to the library is the Python quotient',
    'the pure-python implementations are verified (py_stringsimjoin.__use_cython__ = False); the .pyx variants are not built here',
]


def _p(quick, thorough=None, extra=None):
    return {'engines': {'quick': quick, 'thorough': thorough or quick},
            'assumptions': _COMMON + (extra or [])}


PROPS = {
    'C01': _p(['E1', 'E2', 'E3', 'E4', 'E9', 'EM']),
    'C02': _p(['E2', 'E3', 'E4', 'E9', 'EM']),
    'C03': _p(['E3', 'E4', 'E9', 'E1', 'EM']),
    'C04': _p(['E1', 'E2', 'E3', 'E4', 'E9', 'E5', 'EM']),
    'C05': _p(['E5', 'EM']),
    'C06': _p(['E5', 'E3']),
    'C07': _p(['E9']),
    'C08': _p(['E3', 'E4', 'E5', 'EM']),
    'C09': _p(['E2', 'E3', 'E4', 'E9', 'E5', 'EM']),
    'C10': _p(['E4', 'E9', 'E3', 'E5', 'EM']),
    'C11': _p(['E3', 'E4', 'EM']),
    'C12': _p(['E6', 'E3', 'E4', 'E5', 'E7', 'EM']),
    'C13': _p(['E9']),
    'C14': _p(['E1', 'E2', 'E3', 'E9', 'EM']),
    'C15': _p(['E7', 'E6', 'E3', 'E5', 'E8']),
    'C16': _p(['E8']),
    'C17': _p(['E8']),
}

ENGINE_INFO = {
    'E2': {'path': 'harness/vf/engines/e2.py + spec/TraceWords.tla, Filters.tla, TraceAPI.tla',
           'kind': 'all arrangements (words over {left,right,both}) of two token sets up to a length bound x measure x threshold on the real filter_pair / index+find_candidates / joins; TLC judges outcomes against the KeepMust envelope and the transcribed algorithms'},
    'EM': {'path': 'harness/vf/engines/em.py + spec/Workers.tla, WorkersED.tla, Pipeline.tla, Matcher.tla, FilterSoundness.tla',
           'kind': 'exhaustive TLC model checking of the specification itself (worker state machines with every admissible arithmetic, pipeline with every chunking and completion order, matcher, pruning logic over every token arrangement) incl. sabotaged configurations that must fail'},
    'E1': {'path': 'harness/vf/engines/e1.py + spec/TraceArith.tla, Filters.tla (Bounds), TraceAPI.tla',
           'kind': 'arithmetic envelopes: bound functions, SizeFilter.filter_pair on all count pairs, worst-case witnesses on filter_pair / joins / filter_tables for every token count up to N and a dense threshold grid'},
    'E4': {'path': 'harness/vf/engines/e4.py + spec/GenSchedules.tla, TraceLaws.tla, TraceAPI.tla',
           'kind': 'schedules and presentation: every TLC-enumerated right table x n_jobs values x presentation variants; results compared as multisets by TLC (EQ law) and validated against the envelope'},
    'E5': {'path': 'harness/vf/engines/e5.py + spec/GenCandsets.tla, TraceMatcher.tla',
           'kind': 'apply_matcher / filter_candset over every TLC-enumerated candidate set and missing pattern'},
    'E6': {'path': 'harness/vf/engines/e6.py + spec/Session.tla, TraceSession.tla',
           'kind': 'call histories: TLC model-checks the tokenizer switch/restore discipline and enumerates every history over an 18-call alphabet; each is replayed on the library with shared objects and compared with isolated runs'},
    'E7': {'path': 'harness/vf/engines/e7.py + spec/Validation.tla, TraceValidation.tla',
           'kind': 'validation matrix: entry point x violated preconditions x context enumerated by TLC, realised as calls, judged by TLC'},
    'E8': {'path': 'harness/vf/engines/e8.py + spec/Converter.tla, TraceConverter.tla, Profiler.tla, TraceProfiler.tla',
           'kind': 'converter and profiler over TLC-enumerated abstract columns (model-based exhaustive test generation, envelope judged by TLC)'},
    'E9': {'path': 'harness/vf/engines/e9.py + spec/TraceLaws.tla, TraceAPI.tla',
           'kind': 'relational laws (transposition, refinement, operator partition, join = filter + matcher, Position within Prefix and Size) on seeded random tables, tie-point witness tables and the bundled person/books data; joins on the random tables validated against the envelope'},
    'E3': {'path': 'harness/vf/engines/e3.py + spec/GenTables.tla, GenStrTables.tla, TraceAPI.tla, Semantics.tla',
           'kind': 'TLC enumerates all pairs of small tables; every pair is executed on the real joins / filter_tables under seeded configurations; TLC validates every recorded call against the property-level envelope'},
}

_T = 'TLC model checking + TLC trace validation of real executions'
_LEVEL = ('Bounded-exhaustive: TLC enumerates the case space defined by the specification, every case is run on the real '
          'library, and TLC validates each recorded execution against the TLA+ specification (property-layer envelope; '
          'implementation-layer step relation where hooks exist). ')
_NOTE = ('Trusted: TLC, the harness that concretises cases and abstracts observations (py_stringmatching tokenizers, pandas), '
         'the bounded scopes stated in DESIGN.md section 4. Beyond the bounds coverage is by seeded random runs only.')

TEXT = {
    'C01': {'level': _LEVEL + 'Completeness (Must pairs present) is decided for every enumerated table pair, arrangement and arithmetic grid point.',
            'note': _NOTE, 'technique': _T, 'ref': 'DESIGN.md 4 C01'},
    'C02': {'level': _LEVEL + 'Soundness, uniqueness and exact 4-decimal / rational / integer scores are decided by TLC per returned row.',
            'note': _NOTE, 'technique': _T, 'ref': 'DESIGN.md 4 C02'},
    'C03': {'level': _LEVEL + 'Levenshtein distance and q-gram sharing are computed by TLC for every pair of strings in scope.',
            'note': _NOTE, 'technique': _T, 'ref': 'DESIGN.md 4 C03'},
    'C04': {'level': _LEVEL + 'KeepMust (exact similarity >= threshold, ties included) is decided by TLC; filter_pair, filter_tables and filter_candset outcomes are observed on the real filters.',
            'note': _NOTE, 'technique': _T, 'ref': 'DESIGN.md 4 C04'},
    'C05': {'level': _LEVEL, 'note': _NOTE, 'technique': _T, 'ref': 'DESIGN.md 4 C05'},
    'C06': {'level': _LEVEL, 'note': _NOTE, 'technique': _T, 'ref': 'DESIGN.md 4 C06'},
    'C07': {'level': _LEVEL, 'note': _NOTE, 'technique': _T + ' (relational laws over recorded results)', 'ref': 'DESIGN.md 4 C07'},
    'C08': {'level': _LEVEL, 'note': _NOTE, 'technique': _T, 'ref': 'DESIGN.md 4 C08'},
    'C09': {'level': _LEVEL, 'note': _NOTE, 'technique': _T, 'ref': 'DESIGN.md 4 C09'},
    'C10': {'level': _LEVEL, 'note': _NOTE, 'technique': _T, 'ref': 'DESIGN.md 4 C10'},
    'C11': {'level': _LEVEL, 'note': _NOTE, 'technique': _T, 'ref': 'DESIGN.md 4 C11'},
    'C12': {'level': _LEVEL, 'note': _NOTE, 'technique': _T + ' (call histories)', 'ref': 'DESIGN.md 4 C12'},
    'C13': {'level': _LEVEL, 'note': _NOTE, 'technique': _T + ' (relational laws over recorded results)', 'ref': 'DESIGN.md 4 C13'},
    'C14': {'level': _LEVEL, 'note': _NOTE, 'technique': _T, 'ref': 'DESIGN.md 4 C14'},
    'C15': {'level': _LEVEL, 'note': _NOTE, 'technique': _T + ' (validation matrix)', 'ref': 'DESIGN.md 4 C15'},
    'C16': {'level': _LEVEL + 'Model-based exhaustive test generation over abstract columns; the weakest fit for TLA+ (one function).',
            'note': _NOTE, 'technique': _T, 'ref': 'DESIGN.md 4 C16'},
    'C17': {'level': _LEVEL + 'Model-based exhaustive test generation over run-length encoded columns.',
            'note': _NOTE, 'technique': _T, 'ref': 'DESIGN.md 4 C17'},
}

_WIP = 'check under construction (engine not committed yet); the property is within reach of the technique, see DESIGN.md section 4'
NOT_APPLICABLE = {p: _WIP for p in TEXT}
