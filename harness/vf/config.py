"""Paths and run-wide settings."""
import os

VERIF = os.path.dirname(os.path.dirname(os.path.dirname(os.path.abspath(__file__))))
SPEC = os.path.join(VERIF, 'spec')
WORK = os.path.join(VERIF, '.work')
EVIDENCE = os.environ.get('VERIF_EVIDENCE_DIR', os.path.join(VERIF, 'evidence'))
REPLAY = os.environ.get('VERIF_REPLAY_DIR', os.path.join(VERIF, 'replay'))
KNOWN = os.path.join(VERIF, 'known_findings.json')
REPO = os.environ.get('VERIF_REPO', '/repo')
HOOK_GUARD = 'PY_STRINGSIMJOIN_VERIF'

TLA_JAR = '/opt/veriftools/tla/tla2tools.jar'
TLA_DEPS = '/opt/veriftools/tla/CommunityModules-deps.jar'

TLC_STACK = os.environ.get('VERIF_TLC_STACK', '512m')   # per Java thread, reserved not committed

NCPU = min(16, os.cpu_count() or 4)


def seed():
    try:
        return int(os.environ.get('VERIF_SEED', '0'))
    except ValueError:
        return 0


def tier(default='quick'):
    t = os.environ.get('VERIF_TIER', default)
    return t if t in ('quick', 'thorough') else default


def workdir(*parts):
    path = os.path.join(WORK, *parts)
    os.makedirs(path, exist_ok=True)
    return path
