"""Running TLC and reading what it printed.

TLC is the only oracle of the framework; this module starts it (one JVM per
call, with an explicit heap so that 16 can run side by side), passes files to
the specification through IOEnv variables and parses
  * the state statistics,
  * PrintT lines of the form  <<"TAG", "json text">>  and  <<"TAG", v1, ...>>,
  * errors (anything TLC reports as an error is a machinery failure unless the
    caller asked for invariant violations to be returned).
"""
import json
import os
import re
import shutil
import subprocess
import tempfile
import time
from concurrent.futures import ThreadPoolExecutor

from . import config


class TLCError(Exception):
    pass


class TLCResult(object):
    def __init__(self):
        self.stdout = ''
        self.generated = 0
        self.distinct = 0
        self.depth = 0
        self.wall = 0.0
        self.records = {}      # tag -> list of decoded payloads
        self.violation = None  # text of an invariant/property violation
        self.cmd = ''

    def tag(self, name):
        return self.records.get(name, [])


_STAT = re.compile(r'(\d+) states generated, (\d+) distinct states found')
_DEPTH = re.compile(r'The depth of the complete state graph search is (\d+)')
_PRINT = re.compile(r'^<<"([A-Z_]+)", (.*)>>$')


def _decode(payload):
    payload = payload.strip()
    if payload.startswith('"') and payload.endswith('"'):
        try:
            text = json.loads(payload)
            return json.loads(text)
        except ValueError:
            pass
    return payload


def parse_output(out, res):
    for line in out.splitlines():
        line = line.strip()
        m = _PRINT.match(line)
        if m:
            res.records.setdefault(m.group(1), []).append(_decode(m.group(2)))
            continue
        m = _STAT.search(line)
        if m:
            res.generated = int(m.group(1))
            res.distinct = int(m.group(2))
        m = _DEPTH.search(line)
        if m:
            res.depth = int(m.group(1))
    return res


def run(module, cfg=None, env=None, workers=1, heap='3g', timeout=3600,
        extra=None, allow_violation=False, label=None, cfg_path=None):
    """Run TLC on spec/<module>.tla with spec/<cfg>.cfg."""
    cfg = cfg or module
    meta = tempfile.mkdtemp(prefix='tlc-', dir=config.workdir('tlc'))
    # -Xss: the recursive operators of the specifications (Lev, SortAsc, Dedup, the Big* arithmetic) are evaluated
    # on the Java stack; with the 1 MB default a 16 x 17 character Levenshtein table sits at the limit and
    # overflows or not depending on when the JIT compiles the evaluator (seen under 16 parallel JVMs)
    cmd = ['java', '-Xmx' + heap, '-Xss' + config.TLC_STACK, '-XX:+UseParallelGC',
           '-cp', config.TLA_JAR + ':' + config.TLA_DEPS, 'tlc2.TLC',
           '-workers', str(workers), '-metadir', meta, '-noGenerateSpecTE',
           '-config', cfg_path or os.path.join(config.SPEC, cfg + '.cfg')]
    cmd += list(extra or [])
    cmd.append(os.path.join(config.SPEC, module + '.tla'))
    full_env = dict(os.environ)
    full_env.update(env or {})
    res = TLCResult()
    res.cmd = ' '.join(cmd)
    t0 = time.time()
    try:
        proc = subprocess.run(cmd, cwd=config.SPEC, env=full_env, timeout=timeout,
                              stdout=subprocess.PIPE, stderr=subprocess.STDOUT)
        out = proc.stdout.decode('utf-8', 'replace')
    except subprocess.TimeoutExpired as exc:
        shutil.rmtree(meta, ignore_errors=True)
        raise TLCError('TLC timed out after %ss: %s' % (timeout, label or module))
    finally:
        shutil.rmtree(meta, ignore_errors=True)
    res.wall = time.time() - t0
    res.stdout = out
    parse_output(out, res)
    if 'Model checking completed. No error has been found.' in out or \
       ('Finished computing initial states' in out and 'Error' not in out
            and proc.returncode == 0):
        return res
    if proc.returncode == 0 and 'Error:' not in out:
        return res
    if ('is violated' in out or 'Temporal properties were violated' in out or 'was violated' in out
            or 'Deadlock reached' in out):
        res.violation = out
        if allow_violation:
            return res
    raise TLCError('TLC failed (%s, exit %s):\n%s' % (label or module, proc.returncode,
                                                     out[-3000:]))


def run_many(jobs, parallel=None):
    """jobs: list of dicts of keyword arguments for run(); returns results in order."""
    parallel = parallel or config.NCPU
    with ThreadPoolExecutor(max_workers=parallel) as pool:
        futs = [pool.submit(run, **job) for job in jobs]
        return [f.result() for f in futs]


def write_json(obj, name, subdir='traces'):
    path = os.path.join(config.workdir(subdir), '%d-%s' % (os.getpid(), name))
    with open(path, 'w') as handle:
        json.dump(obj, handle, separators=(',', ':'))
    return path
