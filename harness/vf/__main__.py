import sys
from .check import main
sys.exit(main(sys.argv[1:]))
