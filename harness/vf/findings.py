"""Known findings: genuine defects recorded rather than repaired.

known_findings.json is read-only at run time.  A failure is a known finding
only if an *open* entry matches its property, clause and every listed case
field; anything else of the same property is a new violation.  Entries under
"fixed" document repaired defects and suppress nothing.
"""
import json
import os

from . import config


def load():
    if not os.path.exists(config.KNOWN):
        return {'open': [], 'fixed': []}
    with open(config.KNOWN) as handle:
        return json.load(handle)


def _get(case, dotted):
    cur = case
    for part in dotted.split('.'):
        if isinstance(cur, dict) and part in cur:
            cur = cur[part]
        else:
            return None
    return cur


def matches(entry, fail):
    if entry.get('property') != fail['prop']:
        return False
    m = entry.get('match', {})
    if 'engine' in m and fail.get('engine') not in m['engine']:
        return False
    if 'clause' in m and fail['clause'] not in m['clause']:
        return False
    for field, allowed in m.get('case', {}).items():
        if _get(fail.get('case', {}), field) not in allowed:
            return False
    return True


def classify(fails):
    """-> (new_violations, {finding id: [fails]})"""
    known = load().get('open', [])
    new, found = [], {}
    for f in fails:
        hit = next((e for e in known if matches(e, f)), None)
        if hit is None:
            new.append(f)
        else:
            found.setdefault(hit['id'], []).append(f)
    return new, found, {e['id']: e for e in known}
