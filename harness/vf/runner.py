"""Generic machinery: run concrete cases on the library in parallel, validate
the recorded traces with TLC in parallel, collect total verdicts."""
import json
import multiprocessing as mp
import os
import sys
import time
import traceback

from . import config, tlc


class MachineryError(Exception):
    """Anything that prevents a sound verdict (exit code 2)."""


# ------------------------------------------------------------- case execution
def _init_worker():
    from . import lib
    lib.load()


def _run_slice(args):
    fn_mod, fn_name, items = args
    mod = __import__(fn_mod, fromlist=[fn_name])
    fn = getattr(mod, fn_name)
    out = []
    for item in items:
        try:
            out.append(fn(item))
        except Exception:
            out.append({'_machinery_error': traceback.format_exc(), '_item': repr(item)[:500]})
    return out


def pmap(fn, items, nproc=None, chunk=None):
    """Apply module-level function fn to items in forked worker processes."""
    items = list(items)
    nproc = nproc or config.NCPU
    if not items:
        return []
    if nproc <= 1 or len(items) < 8:
        _init_worker()
        return _run_slice((fn.__module__, fn.__name__, items))
    chunk = chunk or max(1, min(400, len(items) // (nproc * 4) + 1))
    slices = [(fn.__module__, fn.__name__, items[i:i + chunk]) for i in range(0, len(items), chunk)]
    ctx = mp.get_context('fork')
    with ctx.Pool(nproc, initializer=_init_worker) as pool:
        parts = pool.map(_run_slice, slices)
    out = [r for part in parts for r in part]
    bad = [r for r in out if isinstance(r, dict) and '_machinery_error' in r]
    if bad:
        raise MachineryError('driver failed on %d items, first:\n%s\n%s' % (
            len(bad), bad[0]['_machinery_error'], bad[0]['_item']))
    return out


# ------------------------------------------------------------ TLC validation
def validate(records, module, name, batch=1500, env_key='TRACE_FILE', cfg=None,
             tag='VERDICT', id_key='tid', heap='2g', extra_env=None, collect=(), cfg_path=None):
    """Validate trace records (each with a unique integer id) in parallel TLC
    processes.  Returns (verdicts: id -> payload dict, stats)."""
    records = list(records)
    if not records:
        return {}, {'states': 0, 'transitions': 0, 'tlc_runs': 0, 'tlc_wall': 0.0,
                    'collected': {t: [] for t in collect}}
    jobs = []
    for bi in range(0, len(records), batch):
        path = tlc.write_json(records[bi:bi + batch], '%s-%05d.json' % (name, bi // batch))
        env = {env_key: path}
        env.update(extra_env or {})
        jobs.append(dict(module=module, cfg=cfg or module, env=env, workers=1, heap=heap, cfg_path=cfg_path,
                         label='%s batch %d' % (name, bi // batch)))
    t0 = time.time()
    try:
        results = tlc.run_many(jobs)
    except tlc.TLCError as exc:
        raise MachineryError(str(exc))
    verdicts = {}
    states = 0
    collected = {t: [] for t in collect}
    for res in results:
        states += res.distinct
        for t in collect:
            collected[t].extend(res.tag(t))
        for payload in res.tag(tag):
            if not isinstance(payload, dict) or id_key not in payload:
                raise MachineryError('unparsable %s line: %r' % (tag, payload))
            verdicts[payload[id_key]] = payload
    missing = [r[id_key] for r in records if r[id_key] not in verdicts]
    if missing:
        raise MachineryError('%s: no verdict for %d traces (first ids %s)' % (
            name, len(missing), missing[:5]))
    for job in jobs:
        try:
            os.remove(job['env'][env_key])
        except OSError:
            pass
    return verdicts, {'states': states, 'transitions': max(states - len(results), 0),
                      'tlc_runs': len(results), 'tlc_wall': time.time() - t0,
                      'collected': collected}


def log(msg):
    sys.stderr.write('[vf %s] %s\n' % (time.strftime('%H:%M:%S'), msg))
    sys.stderr.flush()


# ------------------------------------------- worn process vs. fresh interpreter
def _rows_in_this_process(case):
    from . import record
    os.environ[config.HOOK_GUARD] = '1'
    obs, res, ev, tabs = record.execute(case)
    return record.law_rows(case, res, tabs)


def fresh_vs_worn(cases, label='fresh-interpreter'):
    """EQ law records comparing each case run in a fresh interpreter (nothing else was called there) with the same
    case run in long-lived worker processes after many other calls (C10: repeating a call in another process)."""
    cases = list(cases)
    if not cases:
        return []
    with mp.get_context('spawn').Pool(config.NCPU, maxtasksperchild=1) as pool:
        fresh = pool.map(_rows_in_this_process, cases, chunksize=1)
    worn = pmap(_rows_in_this_process, cases)
    laws = []
    for c, fr, wr in zip(cases, fresh, worn):
        if fr is None or wr is None:
            continue
        laws.append({'law': 'EQ', 'prop': 'C10', 'A': fr, 'B': wr, 't': c['t'], 'label': label,
                     'meas': c['meas'], 'op': c['op'], '_case': c})
    return laws
